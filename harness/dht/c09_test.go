//go:build verif

package dht

import (
	"context"
	"fmt"
	"os"
	"strconv"
	"sort"
	"strings"
	"testing"
	"testing/synctest"
	"time"

	recpb "github.com/libp2p/go-libp2p-record/pb"
	kb "github.com/libp2p/go-libp2p-kbucket"
	"github.com/libp2p/go-libp2p/core/network"
	"github.com/libp2p/go-libp2p/core/peer"
	ma "github.com/multiformats/go-multiaddr"
	"google.golang.org/protobuf/proto"

	"github.com/libp2p/go-libp2p-kad-dht/internal/simnet"
	vu "github.com/libp2p/go-libp2p-kad-dht/internal/verifutil"
	pb "github.com/libp2p/go-libp2p-kad-dht/pb"
)

type c09Addr struct {
	id, length    int
	valid, passes bool
}

func parseAddrs(s string) []c09Addr {
	var out []c09Addr
	for _, t := range splitNonEmpty(s, ";") {
		p := strings.Split(t, ":")
		out = append(out, c09Addr{atoi(p[0]), atoi(p[1]), p[2] == "1", p[3] == "1"})
	}
	return out
}

func (a c09Addr) bytes() []byte {
	if !a.valid {
		b := make([]byte, a.length)
		for i := range b {
			b[i] = 0xff
		}
		return b
	}
	return vAddr(a.id, a.length, !a.passes).Bytes()
}

func c09Key(kind string, name string, keylen int) []byte {
	if keylen == 0 {
		return nil
	}
	base := "k" + name + "-"
	if kind == "v" {
		base = "/v/" + name + "-"
	}
	if len(base) < keylen {
		base += strings.Repeat("x", keylen-len(base))
	}
	return []byte(base[:keylen])
}

func summarize(d *IpfsDHT, m *pb.Message, raw []byte) string {
	over := ""
	if len(raw) > network.MessageSizeMax {
		over = "|OVERSIZE-MESSAGE"
	}
	fmtPeers := func(ps []*pb.Message_Peer, sorted bool) string {
		var ss []string
		for _, p := range ps {
			if proto.Size(p) > pb.MaxPeerRecordSize {
				over += "|OVERSIZE-RECORD"
			}
			// when the 8 KiB bound cut the list, which addresses survive depends on the peerstore's (random)
			// order: report "T"; the exact cut is compared by the wire-level cases on ordered lists
			known := len(d.peerstore.Addrs(peer.ID(p.Id)))
			if sorted {
				known = len(d.filterAddrs(d.peerstore.Addrs(peer.ID(p.Id))))
			}
			if os.Getenv("VERIF_DEBUG") != "" {
				tot := 0
				var ls []int
				for _, a := range p.Addrs {
					tot += len(a)
					ls = append(ls, len(a))
				}
				fmt.Fprintf(os.Stderr, "DEBUG peer %d: %d addrs, known %d, bytes %d, proto.Size %d lens %v\n", vPeerNum(peer.ID(p.Id)), len(p.Addrs), known, tot, proto.Size(p), ls)
			}
			if len(p.Addrs) < known {
				ss = append(ss, fmt.Sprintf("%d:T", vPeerNum(peer.ID(p.Id))))
			} else {
				ss = append(ss, fmt.Sprintf("%d:%d", vPeerNum(peer.ID(p.Id)), len(p.Addrs)))
			}
		}
		if sorted {
			sort.Slice(ss, func(i, j int) bool { return atoi(strings.Split(ss[i], ":")[0]) < atoi(strings.Split(ss[j], ":")[0]) })
		}
		return "[" + strings.Join(ss, ",") + "]"
	}
	b2i := func(b bool) int {
		if b {
			return 1
		}
		return 0
	}
	return fmt.Sprintf("resp t=%d key=%d rec=%d closer=%s provs=%s%s", int(m.GetType()), b2i(len(m.GetKey()) > 0),
		b2i(m.GetRecord() != nil), fmtPeers(m.GetCloserPeers(), false), fmtPeers(m.GetProviderPeers(), true), over)
}

func runC09(c *vu.Case) {
	ctx := context.Background()
	var h *simnet.Host
	var d *IpfsDHT
	var cur *simnet.Stream
	K := 20
	defer func() {
		if d != nil {
			d.Close()
		}
		if h != nil {
			h.Close()
		}
	}()
	feats := map[string]bool{}
	for i, in := range c.In {
		f := strings.Fields(in)
		a := kv(f)
		out := "ok"
		switch f[0] {
		case "srv":
			h = simnet.NewHost(vPeer(atoi(a["self"])))
			K = atoi(a["K"])
			opts := []Option{ProtocolPrefix("/verif"), BucketSize(K), DisableAutoRefresh(), Validator(vNSValidator()),
				Datastore(vDatastore()), disableFixLowPeersRoutine(c.T), AddressFilter(vFilter)}
			if a["mode"] == "s" {
				opts = append(opts, Mode(ModeServer))
			} else {
				opts = append(opts, Mode(ModeClient))
			}
			if a["values"] == "0" {
				opts = append(opts, DisableValues())
			}
			if a["providers"] == "0" {
				opts = append(opts, DisableProviders())
			}
			var err error
			d, err = New(h, opts...)
			if err != nil {
				panic(err)
			}
			var hs []string
			for _, p := range h.Protocols() {
				hs = append(hs, string(p))
			}
			out = "handlers=[" + strings.Join(hs, ",") + "]"
		case "peer":
			var addrs []ma.Multiaddr
			for _, ad := range parseAddrs(f[2]) {
				addrs = append(addrs, vAddr(ad.id, ad.length, !ad.passes))
			}
			h.Peerstore().AddAddrs(vPeer(atoi(f[1])), addrs, 1000*time.Hour)
		case "rt":
			for _, n := range splitNonEmpty(f[1], ",") {
				// a full bucket rejects the peer; the table's content reaches the model through nearest=
				_, _ = d.routingTable.TryAddPeer(vPeer(atoi(n)), true, false)
			}
		case "prov":
			for _, n := range splitNonEmpty(f[2], ",") {
				if err := d.providerStore.AddProvider(ctx, c09Key("p", f[1], 12), peer.AddrInfo{ID: vPeer(atoi(n))}); err != nil {
					out = "err:" + err.Error()
				}
			}
		case "val":
			k := c09Key("v", f[1], 12)
			if err := d.valueStore.Put(ctx, string(k), &recpb.Record{Key: k, Value: []byte(f[2] + ":ok")}); err != nil {
				out = "err:" + err.Error()
			}
		case "bound":
			// bound idlen=<n> conn=<uint64> addrs=<l1,l2,..> : ingress bounding of one peer record
			rec := &pb.Message_Peer{Id: make([]byte, atoi(a["idlen"]))}
			cv, _ := strconv.ParseUint(a["conn"], 10, 64)
			rec.Connection = pb.Message_ConnectionType(int32(int64(cv)))
			for j, l := range splitNonEmpty(a["addrs"], ",") {
				rec.Addrs = append(rec.Addrs, vAddr(j, atoi(l), false).Bytes())
			}
			pb.PBPeersToPeerInfos([]*pb.Message_Peer{rec})
			out = fmt.Sprintf("kept=%d", len(rec.Addrs))
			if proto.Size(rec) > pb.MaxPeerRecordSize {
				out += "|OVERSIZE-RECORD"
			}
			feats["bound"] = true
		case "fit":
			// fit keylen=<n> ncloser=<n> recs=<idlen1,idlen2,..> : the GET_PROVIDERS budget loop
			resp := pb.NewMessage(pb.Message_GET_PROVIDERS, make([]byte, atoi(a["keylen"])), 0)
			for j := 0; j < atoi(a["ncloser"]); j++ {
				resp.CloserPeers = append(resp.CloserPeers, &pb.Message_Peer{Id: []byte(vPeer(j))})
			}
			base := proto.Size(resp)
			var sizes []string
			var recs []*pb.Message_Peer
			for _, l := range splitNonEmpty(a["recs"], ",") {
				r := &pb.Message_Peer{Id: make([]byte, atoi(l))}
				recs = append(recs, r)
				sizes = append(sizes, fmt.Sprint(proto.Size(r)))
			}
			appendFittingProviderPeers(resp, func(yield func(*pb.Message_Peer) bool) {
				for _, r := range recs {
					if !yield(r) {
						return
					}
				}
			})
			// the protobuf library's sizes are inputs of the model
			c.In[i] = fmt.Sprintf("fit keylen=%s ncloser=%s recs=%s base=%d sizes=%s", a["keylen"], a["ncloser"], a["recs"], base, strings.Join(sizes, ","))
			out = fmt.Sprintf("appended=%d", len(resp.ProviderPeers))
			if proto.Size(resp) > network.MessageSizeMax {
				out += "|OVERSIZE-MESSAGE"
			}
			feats["fit"] = true
		case "req", "raw":
			from := vPeer(atoi(a["from"]))
			if a["same"] != "1" || cur == nil || cur.Finished() {
				conns := h.Net().ConnsToPeer(from)
				var conn *simnet.Conn
				if len(conns) > 0 {
					conn = conns[0].(*simnet.Conn)
				} else {
					conn = h.Net().AddConn(from, network.DirInbound, nil)
				}
				cur = conn.NewSimStream(vProto, network.DirInbound)
				s := cur
				go d.handleNewStream(s)
			} else {
				// continuing on the open stream: the requester is that stream's peer
				from = cur.Conn().RemotePeer()
				for j := range f {
					if strings.HasPrefix(f[j], "from=") {
						f[j] = fmt.Sprintf("from=%d", vPeerNum(from))
					}
				}
				c.In[i] = strings.Join(f, " ")
				a = kv(f)
			}
			var payload []byte
			if f[0] == "raw" {
				switch a["kind"] {
				case "garbage":
					payload = frame([]byte{0xff, 0xff, 0xff, 0x07, 0x01})
				case "oversize":
					payload = []byte{0x81, 0x80, 0x80, 0x02, 0x00} // frame length 4 MiB + 1
				case "truncated":
					payload = append([]byte{0x20}, []byte("abc")...)
				case "eof":
					payload = nil
				case "badvarint":
					payload = []byte{0xff, 0xff, 0xff, 0xff, 0xff, 0xff, 0xff, 0xff, 0xff, 0xff, 0x7f}
				}
				cur.Remote().Write(payload)
				cur.Remote().CloseWrite()
				feats["raw"] = true
			} else {
				typ := atoi(a["type"])
				kind := "p"
				if typ == 0 || typ == 1 {
					kind = "v"
				}
				key := c09Key(kind, a["key"], atoi(a["keylen"]))
				if typ == 4 && a["target"] != "-" && a["target"] != "" && len(key) > 0 {
					key = []byte(vPeer(atoi(a["target"])))
				}
				// the routing table's own answer is an input of the model
				var near []string
				if len(key) > 0 {
					for _, p := range d.routingTable.NearestPeers(kb.ConvertKey(string(key)), K+1) {
						near = append(near, fmt.Sprint(vPeerNum(p)))
					}
				}
				nearTok := "nearest=" + strings.Join(near, ",")
				if len(near) == 0 {
					nearTok = "nearest=-"
				}
				replaced := false
				for j := range f {
					if strings.HasPrefix(f[j], "nearest=") {
						f[j] = nearTok
						replaced = true
					}
				}
				if !replaced {
					f = append(f, nearTok)
				}
				c.In[i] = strings.Join(f, " ")
				m := &pb.Message{Type: pb.Message_MessageType(typ), Key: key}
				switch a["rec"] {
				case "m1":
					m.Record = &recpb.Record{Key: key, Value: []byte("1:ok")}
				case "m0":
					m.Record = &recpb.Record{Key: key, Value: []byte("1:bad")}
				case "x":
					m.Record = &recpb.Record{Key: []byte("/v/other"), Value: []byte("1:ok")}
				}
				for j := 0; j < atoi(a["ncloser"]); j++ {
					m.CloserPeers = append(m.CloserPeers, &pb.Message_Peer{Id: []byte(vPeer(900 + j)), Addrs: [][]byte{vAddr(j, 8, false).Bytes()}})
					if typ == 5 || typ == 0 {
						m.ProviderPeers = append(m.ProviderPeers, &pb.Message_Peer{Id: []byte(vPeer(950 + j))})
					}
				}
				for _, pr := range splitNonEmpty(a["provs"], "|") {
					parts := strings.SplitN(pr, "=", 2)
					p := &pb.Message_Peer{Id: []byte(vPeer(atoi(parts[0])))}
					for _, ad := range parseAddrs(parts[1]) {
						p.Addrs = append(p.Addrs, ad.bytes())
					}
					m.ProviderPeers = append(m.ProviderPeers, p)
				}
				b, err := proto.Marshal(m)
				if err != nil {
					panic(err)
				}
				cur.Remote().Write(frame(b))
				feats[fmt.Sprintf("type%d", typ)] = true
			}
			synctest.Wait()
			if os.Getenv("VERIF_DEBUG") != "" {
				fmt.Fprintf(os.Stderr, "DEBUG after %q: peerstore has %d addrs for requester\n", in[:min(40, len(in))], len(d.peerstore.Addrs(from)))
			}
			raw := drain(cur.Remote())
			msgs, rest := unframe(raw)
			var parts []string
			for _, mb := range msgs {
				var rm pb.Message
				if err := proto.Unmarshal(mb, &rm); err != nil {
					parts = append(parts, "UNDECODABLE-RESPONSE")
					continue
				}
				parts = append(parts, summarize(d, &rm, mb))
			}
			if len(rest) > 0 {
				parts = append(parts, "PARTIAL-RESPONSE")
			}
			if len(parts) == 0 {
				switch cur.State() {
				case "reset":
					parts = append(parts, "reset")
					feats["reset"] = true
				case "closed":
					parts = append(parts, "closed")
				default:
					parts = append(parts, "none")
				}
			}
			out = strings.Join(parts, " + ")
		default:
			out = "bad-op"
		}
		c.Out = append(c.Out, out)
	}
	for k := range feats {
		c.Tag(k)
	}
	if feats["reset"] && len(feats) >= 4 {
		c.Tag("nontrivial")
	}
}

func execC09(c *vu.Case) {
	synctest.Test(c.T, func(t *testing.T) { runC09(c) })
}

func addrTok(id, length int, valid, passes bool) string {
	if length == 133 || (length > 8 && length < 12) {
		length = 134 // no /dns4 multiaddr has exactly this encoded length
	}
	b := func(x bool) int {
		if x {
			return 1
		}
		return 0
	}
	return fmt.Sprintf("%d:%d:%d:%d", id, length, b(valid), b(passes))
}

func genC09(r *vu.RNG, c *vu.Case) bool {
	if c.Idx%8 == 7 {
		// wire-level cases: the two size bounds on ordered inputs
		for i := 0; i < 6; i++ {
			if r.Bool() {
				idlen := []int{0, 2, 38, 38, 38, 500, 8100}[r.Intn(7)]
				conn := []string{"0", "1", "2", "3", "300", "18446744073709551615", "18446744071562067968"}[r.Intn(7)]
				var ls []string
				n := r.Range(0, 6)
				if r.Bool() {
					n = r.Range(20, 900)
				}
				uniform := r.Range(12, 300)
				for j := 0; j < n; j++ {
					l := uniform
					if r.Chance(1, 3) {
						l = []int{8, 8, r.Range(12, 132), r.Range(134, 400)}[r.Intn(4)]
					}
					if l == 133 || (l > 8 && l < 12) {
						l = 134
					}
					ls = append(ls, fmt.Sprint(l))
				}
				s := "-"
				if len(ls) > 0 {
					s = strings.Join(ls, ",")
				}
				c.In = append(c.In, fmt.Sprintf("bound idlen=%d conn=%s addrs=%s", idlen, conn, s))
			} else {
				keylen := r.Range(1, 80)
				var recs []string
				n := r.Range(1, 8)
				big := r.Chance(2, 3)
				for j := 0; j < n; j++ {
					l := r.Range(1, 300)
					if big {
						l = r.Range(400000, 1500000)
					}
					recs = append(recs, fmt.Sprint(l))
				}
				c.In = append(c.In, fmt.Sprintf("fit keylen=%d ncloser=%d recs=%s", keylen, r.Range(0, 3), strings.Join(recs, ",")))
			}
		}
		c.Tag("wire")
		c.Tag("nontrivial")
		return true
	}
	K := r.Range(1, 5)
	if r.Chance(1, 8) {
		K = 20
	}
	mode := "s"
	if r.Chance(1, 10) {
		mode = "c"
	}
	values, providers := 1, 1
	if r.Chance(1, 12) {
		values = 0
	}
	if r.Chance(1, 12) {
		providers = 0
	}
	c.In = append(c.In, fmt.Sprintf("srv self=0 K=%d mode=%s values=%d providers=%d", K, mode, values, providers))
	npool := r.Range(3, K+8)
	addrID := 1
	// pstoremem keeps at most 64 unconnected addresses per peer and evicts by expiry beyond that (external
	// behaviour, not modelled): the generator keeps every peer below that cap
	naddr := map[int]int{}
	for p := 1; p <= npool; p++ {
		var toks []string
		switch x := r.Intn(10); {
		case x < 2: // no addresses known
		case x < 9:
			for j := 0; j < r.Range(1, 4); j++ {
				l := 8
				if r.Chance(1, 3) {
					l = r.Range(12, 200)
				}
				passes := !(l == 8 && r.Chance(1, 3))
				toks = append(toks, addrTok(addrID, l, true, passes))
				addrID++
				naddr[p]++
			}
		default: // a huge list of equally long addresses: must be cut to 8 KiB
			l := r.Range(150, 300)
			for j := 0; j < 60; j++ {
				toks = append(toks, addrTok(addrID, l, true, true))
				addrID++
			}
			naddr[p] = 60
			c.Tag("huge-addr-list")
		}
		if len(toks) > 0 {
			c.In = append(c.In, fmt.Sprintf("peer %d %s", p, strings.Join(toks, ";")))
		}
	}
	if r.Chance(1, 6) { // the node knows addresses for itself
		c.In = append(c.In, fmt.Sprintf("peer 0 %s", addrTok(addrID, 8, true, true)))
		addrID++
	}
	var rt []string
	for p := 1; p <= npool; p++ {
		if r.Chance(2, 3) {
			rt = append(rt, fmt.Sprint(p))
		}
	}
	if len(rt) > 0 {
		c.In = append(c.In, "rt "+strings.Join(rt, ","))
	}
	nkeys := r.Range(1, 3)
	if providers == 1 {
		for k := 0; k < nkeys; k++ {
			var ps []string
			for p := 1; p <= npool; p++ {
				if r.Chance(1, 3) {
					ps = append(ps, fmt.Sprint(p))
				}
			}
			if len(ps) > 0 {
				c.In = append(c.In, fmt.Sprintf("prov %d %s", k, strings.Join(ps, ",")))
			}
		}
	}
	if values == 1 {
		for k := 0; k < nkeys; k++ {
			if r.Bool() {
				c.In = append(c.In, fmt.Sprintf("val %d %d", k, r.Range(1, 9)))
			}
		}
	}
	nreq := r.Range(3, 14)
	putKey := 100
	for i := 0; i < nreq; i++ {
		from := r.Range(1, npool+1) // npool+1: a stranger
		same := 0
		if r.Chance(1, 4) {
			same = 1
		}
		if r.Chance(1, 14) {
			kinds := []string{"garbage", "oversize", "truncated", "eof", "badvarint"}
			c.In = append(c.In, fmt.Sprintf("raw from=%d kind=%s same=0", from, kinds[r.Intn(len(kinds))]))
			continue
		}
		typ := r.Intn(6)
		if r.Chance(1, 15) {
			typ = r.Range(6, 9)
		}
		keylen := 12
		switch x := r.Intn(12); {
		case x == 0:
			keylen = 0
		case x == 1:
			keylen = 80
		case x == 2:
			keylen = 81
		case x == 3:
			keylen = r.Range(1, 300)
		}
		key := r.Intn(nkeys + 1)
		target := "-"
		rec := "-"
		provs := "-"
		ncloser := 0
		if r.Chance(1, 5) {
			ncloser = r.Range(1, 3)
		}
		switch typ {
		case 4:
			if r.Chance(1, 60) {
				// a key that nearly fills the transport limit
				c.In = append(c.In, fmt.Sprintf("req from=%d type=4 key=0 keylen=%d target=- rec=- ncloser=0 provs=- same=0", from, 4194304-r.Range(40, 400)))
				c.Tag("giant-key")
				continue
			}
			switch x := r.Intn(6); {
			case x == 0:
				target = fmt.Sprint(from)
			case x == 1:
				target = "0"
			case x == 2:
				target = fmt.Sprint(npool + 5) // unknown peer
			default:
				target = fmt.Sprint(r.Range(1, npool))
			}
			if keylen != 0 {
				keylen = 38
			}
		case 0:
			key = putKey
			putKey++
			if keylen != 0 && keylen < 8 {
				keylen = 8 // shorter keys cannot carry the /v/ namespace
			}
			rec = []string{"m1", "m1", "m1", "m0", "x", "-"}[r.Intn(6)]
		case 1:
			if r.Chance(1, 3) && putKey > 100 {
				key = r.Range(100, putKey-1)
			}
		case 5:
			if r.Chance(1, 3) {
				rec = "m1"
			}
		case 2:
			var prs []string
			for j := 0; j < r.Range(1, 3); j++ {
				pid := from
				if r.Chance(1, 3) {
					pid = r.Range(1, npool)
				}
				var toks []string
				if naddr[pid] > 50 {
					// this peer's address book is nearly full: send no further addresses for it
				} else if r.Chance(1, 12) && naddr[pid] <= 6 {
					naddr[pid] += 54
					l := r.Range(150, 200)
					for q := 0; q < r.Range(60, 220); q++ {
						toks = append(toks, addrTok(addrID, l, true, true))
						addrID++
					}
				} else {
					for q := 0; q < r.Range(0, 3); q++ {
						valid := !r.Chance(1, 4)
						l := 8
						if !valid || r.Chance(1, 4) {
							l = r.Range(12, 60)
						}
						passes := !(valid && l == 8 && r.Chance(1, 3))
						toks = append(toks, addrTok(addrID, l, valid, passes))
						addrID++
						naddr[pid]++
					}
				}
				s := "-"
				if len(toks) > 0 {
					s = strings.Join(toks, ";")
				}
				prs = append(prs, fmt.Sprintf("%d=%s", pid, s))
			}
			provs = strings.Join(prs, "|")
		}
		c.In = append(c.In, fmt.Sprintf("req from=%d type=%d key=%d keylen=%d target=%s rec=%s ncloser=%d provs=%s same=%d",
			from, typ, key, keylen, target, rec, ncloser, provs, same))
	}
	return true
}

func TestVerifC09(t *testing.T) {
	vu.Run(t, vu.Config{Prop: "C09", QuickN: 1500, ThoroughN: 40000, Gen: genC09, Exec: execC09})
}

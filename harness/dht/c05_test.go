//go:build verif

package dht

import (
	record "github.com/libp2p/go-libp2p-record"
	"context"
	"errors"
	"fmt"
	"sort"
	"strings"
	"sync"
	"testing"
	"time"

	ds "github.com/ipfs/go-datastore"
	dsq "github.com/ipfs/go-datastore/query"
	dssync "github.com/ipfs/go-datastore/sync"
	recpb "github.com/libp2p/go-libp2p-record/pb"
	kb "github.com/libp2p/go-libp2p-kbucket"
	"github.com/multiformats/go-base32"
	"google.golang.org/protobuf/proto"

	"github.com/libp2p/go-libp2p-kad-dht/internal"
	"github.com/libp2p/go-libp2p-kad-dht/internal/simnet"
	vu "github.com/libp2p/go-libp2p-kad-dht/internal/verifutil"
	pb "github.com/libp2p/go-libp2p-kad-dht/pb"
	"github.com/libp2p/go-libp2p-kad-dht/records"
)

type tidKey struct{}

// one datastore access of a scheduled caller
type vsAccess struct {
	tid  int
	kind string // get | put | del
	key  ds.Key
	val  []byte
	goCh chan struct{}
	done chan []byte // the value read (get) once the access has been carried out
}

// gateDS: every access to a value record by a caller that carries a thread id announces itself and waits for the
// scheduler; everything else passes through.
type gateDS struct {
	ds.Batching
	arrive map[int]chan *vsAccess
}

func (g *gateDS) gate(ctx context.Context, kind string, key ds.Key, val []byte) *vsAccess {
	tid, ok := ctx.Value(tidKey{}).(int)
	if !ok || !strings.HasPrefix(key.String(), "/v/") {
		return nil
	}
	a := &vsAccess{tid: tid, kind: kind, key: key, val: val, goCh: make(chan struct{}), done: make(chan []byte, 1)}
	g.arrive[tid] <- a
	<-a.goCh
	return a
}

func (g *gateDS) Get(ctx context.Context, key ds.Key) ([]byte, error) {
	a := g.gate(ctx, "get", key, nil)
	v, err := g.Batching.Get(ctx, key)
	if a != nil {
		a.done <- v
	}
	return v, err
}

func (g *gateDS) Put(ctx context.Context, key ds.Key, val []byte) error {
	a := g.gate(ctx, "put", key, val)
	err := g.Batching.Put(ctx, key, val)
	if a != nil {
		a.done <- nil
	}
	return err
}

func (g *gateDS) Delete(ctx context.Context, key ds.Key) error {
	a := g.gate(ctx, "del", key, nil)
	err := g.Batching.Delete(ctx, key)
	if a != nil {
		a.done <- nil
	}
	return err
}

func (g *gateDS) Query(ctx context.Context, q dsq.Query) (dsq.Results, error) { return g.Batching.Query(ctx, q) }

func c05Key(k int) string { return fmt.Sprintf("/v/k%d%c", k, 'a'+byte(k%2)) }

func c05DsKey(key string) ds.Key {
	return ds.NewKey("/v/" + base32.RawStdEncoding.EncodeToString([]byte(key)))
}

// c05KeyBound: like the /ipns and /pk validators, this one is bound to the key — a record is only valid under a key of
// the harness's own form (never under, say, the datastore key it is filed under).
type c05KeyBound struct{ vValidator }

func (v c05KeyBound) Validate(key string, value []byte) error {
	if c05KeyID(key) < 0 {
		return fmt.Errorf("record validated under a foreign key %q", key)
	}
	return v.vValidator.Validate(key, value)
}

func c05KeyID(key string) int {
	var k int
	var c byte
	if _, err := fmt.Sscanf(key, "/v/k%d%c", &k, &c); err != nil {
		return -1
	}
	return k
}

// c05Token describes stored bytes for the model: n (nothing), c (corrupt), r<rank>k<ekey>e<expired>v<valid>
func c05Token(b []byte, maxAge time.Duration) string {
	if b == nil {
		return "n"
	}
	rec := new(recpb.Record)
	if err := proto.Unmarshal(b, rec); err != nil || len(rec.GetKey()) == 0 {
		return "c"
	}
	rank, verr := vRank(rec.GetValue())
	valid := 1
	if verr != nil {
		valid = 0
		rank = 7
	}
	exp := 0
	if t, err := internal.ParseRFC3339(rec.GetTimeReceived()); err != nil || time.Since(t) > maxAge {
		exp = 1
	}
	return fmt.Sprintf("r%dk%de%dv%d", rank, c05KeyID(string(rec.GetKey())), exp, valid)
}

func c05Rec(key string, val string, old bool) *recpb.Record {
	r := &recpb.Record{Key: []byte(key), Value: valBytes(val)}
	t := time.Now()
	if old {
		t = t.Add(-2 * time.Hour)
	}
	r.TimeReceived = internal.FormatRFC3339(t)
	return r
}

func c05Err(err error) string {
	switch {
	case err == nil:
		return "ok"
	case errors.Is(err, records.ErrOldRecord):
		return "old"
	case err == kb.ErrLookupFailure:
		return "stored" // the local part of PutValue is over; there is nobody to send the record to
	case strings.Contains(err.Error(), "can't replace a newer value"):
		return "refused"
	case strings.Contains(err.Error(), "doesn't match record key"):
		return "mismatch"
	case strings.Contains(err.Error(), "rejected payload") || strings.Contains(err.Error(), "validating record") || strings.Contains(err.Error(), "malformed"):
		return "invalid"
	}
	return "error:" + strings.ReplaceAll(err.Error(), " ", "_")
}

func runC05(c *vu.Case) {
	const maxAge = time.Hour
	base := dssync.MutexWrap(ds.NewMapDatastore())
	g := &gateDS{Batching: base, arrive: map[int]chan *vsAccess{}}
	h := simnet.NewHost(vPeer(1000000))
	defer h.Close()
	d, err := New(h, ProtocolPrefix("/verif"), DisableAutoRefresh(), Validator(record.NamespacedValidator{"v": c05KeyBound{}}), Datastore(g), MaxRecordAge(maxAge),
		Mode(ModeServer), disableFixLowPeersRoutine(c.T))
	if err != nil {
		panic(err)
	}
	defer d.Close()
	ctx := context.Background()
	from := vPeer(5)
	for i := range c.In {
		f := strings.Fields(c.In[i])
		a := kv(f)
		out := "-"
		switch f[0] {
		case "seed": // seed k=<key> kind=<fresh|old|corrupt|miskeyed|invalid> val=r<N>
			key := c05Key(atoi(a["k"]))
			var raw []byte
			switch a["kind"] {
			case "corrupt":
				raw = []byte{0xff, 0xff, 0xff}
			case "miskeyed":
				raw, _ = proto.Marshal(c05Rec(c05Key(atoi(a["k"])+2), a["val"], false))
			case "invalid":
				raw, _ = proto.Marshal(c05Rec(key, "bad", false))
			default:
				raw, _ = proto.Marshal(c05Rec(key, a["val"], a["kind"] == "old"))
			}
			_ = base.Put(ctx, c05DsKey(key), raw)
			_ = c05Token
		case "run": // run threads=<op>|<op>|... sched=0,1,0,2,...
			ops := strings.Split(a["threads"], "|")
			results := make([]string, len(ops))
			var wg sync.WaitGroup
			finished := make([]chan struct{}, len(ops))
			// (the gate's map is complete before any caller starts: callers read it)
			arrive := make(map[int]chan *vsAccess, len(ops))
			for tid := range ops {
				arrive[tid] = make(chan *vsAccess, 1)
				finished[tid] = make(chan struct{})
			}
			g.arrive = arrive
			for tid, op := range ops {
				wg.Add(1)
				go func(tid int, op string) {
					defer wg.Done()
					defer close(finished[tid])
					tctx := context.WithValue(ctx, tidKey{}, tid)
					x := strings.Split(op, ":")
					switch x[0] {
					case "hput": // hput:<msgkey>:<reckey>:<val>
						rec := &recpb.Record{Key: []byte(c05Key(atoi(x[2]))), Value: valBytes(x[3])}
						// a remote PUT_VALUE arrives stamped by its sender (a local PutValue stamps the record before it sends
						// it): long ago, far in the future, garbage, or not at all. The receiver's own clock is what counts.
						switch (tid + len(op)) % 4 {
						case 0:
							rec.TimeReceived = internal.FormatRFC3339(time.Now().Add(-3 * time.Hour))
						case 1:
							rec.TimeReceived = internal.FormatRFC3339(time.Now().Add(1000 * time.Hour))
						case 2:
							rec.TimeReceived = "sender-supplied"
						}
						m := pb.NewMessage(pb.Message_PUT_VALUE, []byte(c05Key(atoi(x[1]))), 0)
						m.Record = rec
						_, err := d.handlePutValue(tctx, from, m)
						results[tid] = c05Err(err)
					case "hget": // hget:<key>
						m := pb.NewMessage(pb.Message_GET_VALUE, []byte(c05Key(atoi(x[1]))), 0)
						resp, err := d.handleGetValue(tctx, from, m)
						switch {
						case err != nil:
							results[tid] = c05Err(err)
						case resp.GetRecord() == nil:
							results[tid] = "none"
						default:
							r, rerr := vRank(resp.GetRecord().GetValue())
							if rerr != nil {
								r = 7 // the token convention for a value the validator rejects
							}
							results[tid] = fmt.Sprintf("val%d", r)
							if string(resp.GetRecord().GetKey()) != c05Key(atoi(x[1])) {
								results[tid] += "MISKEYED"
							}
						}
					case "lput": // lput:<key>:<val>
						err := d.PutValue(tctx, c05Key(atoi(x[1])), valBytes(x[2]))
						results[tid] = c05Err(err)
					}
				}(tid, op)
			}
			var trace []string
			grant := func(tid int, wait time.Duration) bool {
				select {
				case acc := <-g.arrive[tid]:
					close(acc.goCh)
					v := <-acc.done
					tok := ""
					switch acc.kind {
					case "get":
						tok = c05Token(v, maxAge)
					case "put":
						tok = c05Token(acc.val, maxAge)
					}
					var k int
					for kk := 0; kk < 6; kk++ {
						if c05DsKey(c05Key(kk)) == acc.key {
							k = kk
						}
					}
					trace = append(trace, fmt.Sprintf("%d:%s:%d:%s", tid, acc.kind, k, tok))
					return true
				case <-time.After(wait):
					return false
				}
			}
			for _, t := range parseInts(a["sched"], ",") {
				if t < len(ops) {
					grant(t, 3*time.Millisecond)
				}
			}
			// drain: everybody runs to the end, lowest thread first
			for round := 0; round < 200; round++ {
				progress := false
				allDone := true
				for tid := range ops {
					select {
					case <-finished[tid]:
						continue
					default:
					}
					allDone = false
					if grant(tid, 3*time.Millisecond) {
						progress = true
					}
				}
				if allDone {
					break
				}
				_ = progress
			}
			stuck := ""
			doneAll := make(chan struct{})
			go func() { wg.Wait(); close(doneAll) }()
			select {
			case <-doneAll:
			case <-time.After(2 * time.Second):
				stuck = " STUCK"
			}
			var rs []string
			for tid := range ops {
				rs = append(rs, fmt.Sprintf("T%d:%s", tid, results[tid]))
			}
			// what a reader gets now, per key
			var fin []string
			for k := 0; k < 4; k++ {
				rec, err := d.valueStore.Get(ctx, c05Key(k))
				switch {
				case err != nil:
					fin = append(fin, fmt.Sprintf("%d:err", k))
				case rec == nil:
					fin = append(fin, fmt.Sprintf("%d:none", k))
				default:
					r, rerr := vRank(rec.GetValue())
					if rerr != nil {
						r = 7
					}
					fin = append(fin, fmt.Sprintf("%d:val%d", k, r))
				}
			}
			var keep []string
			for _, x := range f {
				if !strings.HasPrefix(x, "trace=") {
					keep = append(keep, x)
				}
			}
			c.In[i] = strings.Join(keep, " ") + " trace=" + strings.Join(trace, ",")
			out = fmt.Sprintf("results=[%s] final=[%s]%s", strings.Join(rs, ","), strings.Join(fin, ","), stuck)
		}
		c.Out = append(c.Out, out)
	}
}

func TestVerifC05(t *testing.T) {
	vu.Run(t, vu.Config{Prop: "C05", QuickN: 1200, ThoroughN: 30000,
		Gen: func(r *vu.RNG, c *vu.Case) bool {
			nkeys := r.Range(1, 3)
			for k := 0; k < nkeys; k++ {
				if r.Chance(2, 3) {
					c.In = append(c.In, fmt.Sprintf("seed k=%d kind=%s val=r%d", k, []string{"fresh", "fresh", "old", "corrupt", "miskeyed", "invalid"}[r.Intn(6)], r.Range(1, 5)))
				}
			}
			rounds := r.Range(1, 3)
			for j := 0; j < rounds; j++ {
				nt := r.Range(2, 4)
				var ops []string
				for i := 0; i < nt; i++ {
					k := r.Intn(nkeys)
					val := fmt.Sprintf("r%d", r.Range(1, 6))
					if r.Chance(1, 10) {
						val = "bad"
					}
					switch r.Intn(6) {
					case 0, 1:
						mk := k
						if r.Chance(1, 8) {
							mk = k + 2 // message key differs from the record key
						}
						ops = append(ops, fmt.Sprintf("hput:%d:%d:%s", mk, k, val))
					case 2, 3:
						ops = append(ops, fmt.Sprintf("hget:%d", k))
					default:
						ops = append(ops, fmt.Sprintf("lput:%d:%s", k, val))
					}
				}
				var sched []string
				for i := 0; i < r.Range(0, 10); i++ {
					sched = append(sched, fmt.Sprint(r.Intn(nt)))
				}
				c.In = append(c.In, fmt.Sprintf("run threads=%s sched=%s", strings.Join(ops, "|"), strings.Join(sched, ",")))
			}
			c.Tag("nontrivial")
			return true
		}, Exec: runC05})
}

var _ = sort.Ints

//go:build verif

package dht

import (
	"fmt"
	"sort"
	"strings"
	"testing"
	"testing/synctest"

	"github.com/libp2p/go-libp2p/core/event"
	"github.com/libp2p/go-libp2p/core/network"
	"google.golang.org/protobuf/proto"

	"github.com/libp2p/go-libp2p-kad-dht/internal/simnet"
	vu "github.com/libp2p/go-libp2p-kad-dht/internal/verifutil"
	pb "github.com/libp2p/go-libp2p-kad-dht/pb"
)

func runC13(c *vu.Case) {
	var h *simnet.Host
	var d *IpfsDHT
	var emitter event.Emitter
	streams := map[int]*simnet.Stream{}
	conns := map[int]*simnet.Conn{}
	inbound := map[int]bool{}
	pendingH := map[int]func(){}
	defer func() {
		if emitter != nil {
			emitter.Close()
		}
		if d != nil {
			d.Close()
		}
		if h != nil {
			h.Close()
		}
	}()
	state := func() string {
		m := "client"
		if d.getMode() == modeServer {
			m = "server"
		}
		hd := 0
		if h.Handler(vProto) != nil {
			hd = 1
		}
		var ids []int
		for id, s := range streams {
			if !s.Finished() {
				ids = append(ids, id)
			}
		}
		sort.Ints(ids)
		ss := make([]string, len(ids))
		for i, id := range ids {
			ss[i] = fmt.Sprint(id)
		}
		return fmt.Sprintf("mode=%s handler=%d open=[%s]", m, hd, strings.Join(ss, ","))
	}
	modeChanges, reqOpen := 0, false
	last := ""
	for _, in := range c.In {
		f := strings.Fields(in)
		res := "-"
		switch f[0] {
		case "dht":
			h = simnet.NewHost(vPeer(0))
			opt := map[string]ModeOpt{"auto": ModeAuto, "client": ModeClient, "server": ModeServer, "autoserver": ModeAutoServer}[f[1]]
			var err error
			d, err = New(h, ProtocolPrefix("/verif"), DisableAutoRefresh(), Validator(vNSValidator()), Datastore(vDatastore()),
				disableFixLowPeersRoutine(c.T), Mode(opt))
			if err != nil {
				panic(err)
			}
			emitter, err = h.EventBus().Emitter(new(event.EvtLocalReachabilityChanged))
			if err != nil {
				panic(err)
			}
			synctest.Wait()
		case "reach":
			r := map[string]network.Reachability{"public": network.ReachabilityPublic, "private": network.ReachabilityPrivate,
				"unknown": network.ReachabilityUnknown}[f[1]]
			before := d.getMode()
			if err := emitter.Emit(event.EvtLocalReachabilityChanged{Reachability: r}); err != nil {
				panic(err)
			}
			synctest.Wait()
			if d.getMode() != before {
				modeChanges++
			}
		case "open":
			id := atoi(f[1])
			peerN := 100 + id
			cdir := network.DirInbound
			if f[2] == "out" {
				cdir = network.DirOutbound
			}
			var conn *simnet.Conn
			if len(f) > 4 && strings.HasPrefix(f[4], "on=") {
				// one more stream on the connection that already carries stream `on` (its direction is that connection's)
				conn = conns[atoi(strings.TrimPrefix(f[4], "on="))]
			}
			if conn == nil {
				conn = h.Net().AddConn(vPeer(peerN), cdir, nil)
			}
			conns[id] = conn
			if f[3] == "in" {
				handler := h.Handler(vProto)
				if handler == nil {
					res = "nohandler"
					break
				}
				s := conn.NewSimStream(vProto, network.DirInbound)
				streams[id] = s
				inbound[id] = true
				go handler(s)
			} else {
				// a stream this node opened to the remote peer (it is the client of that exchange)
				streams[id] = conn.NewSimStream(vProto, network.DirOutbound)
			}
			synctest.Wait()
			res = "opened"
		case "nego":
			// an inbound stream whose protocol negotiation has finished but whose protocol is not yet recorded on the stream
			// (the host does that next, then hands the stream to the handler it looked up): a mode switch in between does not
			// see it as a DHT stream
			id := atoi(f[1])
			cdir := network.DirInbound
			if f[2] == "out" {
				cdir = network.DirOutbound
			}
			handler := h.Handler(vProto)
			if handler == nil {
				res = "nohandler"
				break
			}
			conn := h.Net().AddConn(vPeer(100+id), cdir, nil)
			conns[id] = conn
			s := conn.NewSimStream("", network.DirInbound)
			streams[id] = s
			pendingH[id] = func() { _ = s.SetProtocol(vProto); go handler(s) }
			res = "opened"
		case "deliver":
			id := atoi(f[1])
			if fn := pendingH[id]; fn != nil {
				delete(pendingH, id)
				inbound[id] = true
				fn()
				synctest.Wait()
				res = "delivered"
			} else {
				res = "nothing"
			}
		case "req":
			id := atoi(f[1])
			s := streams[id]
			if s == nil || s.Finished() || !inbound[id] {
				res = "dead"
				break
			}
			b, _ := proto.Marshal(&pb.Message{Type: pb.Message_PING})
			s.Remote().Write(frame(b))
			synctest.Wait()
			raw := drain(s.Remote())
			msgs, _ := unframe(raw)
			switch {
			case len(msgs) > 0:
				res = "answered"
			case s.State() == "reset":
				res = "reset"
			default:
				res = "ignored"
			}
			reqOpen = true
		default:
			res = "bad-op"
		}
		last = res + " " + state()
		c.Out = append(c.Out, last)
	}
	if modeChanges >= 2 && reqOpen {
		c.Tag("nontrivial")
	}
	c.Tag(fmt.Sprintf("modechanges-%d", min(modeChanges, 4)))
}

func genC13(r *vu.RNG, c *vu.Case) bool {
	opt := []string{"auto", "autoserver", "auto", "autoserver", "auto", "autoserver", "auto", "autoserver", "client", "server"}[r.Intn(10)]
	c.In = append(c.In, "dht "+opt)
	c.Tag("opt-" + opt)
	n := r.Range(6, 22)
	next := 1
	for i := 0; i < n; i++ {
		switch x := r.Intn(10); {
		case x < 4:
			c.In = append(c.In, "reach "+[]string{"public", "private", "unknown"}[r.Intn(3)])
		case x < 7:
			conn := []string{"in", "out"}[r.Intn(2)]
			dir := "in"
			if r.Chance(1, 4) {
				dir = "out"
			}
			if next > 1 && r.Chance(1, 2) {
				// share the connection of an earlier stream: connections carry several DHT streams of both directions
				c.In = append(c.In, fmt.Sprintf("open %d %s %s on=%d", next, conn, dir, r.Range(1, next-1)))
			} else {
				c.In = append(c.In, fmt.Sprintf("open %d %s %s", next, conn, dir))
			}
			next++
		case x < 8 && r.Chance(1, 2):
			if next > 1 && r.Bool() {
				c.In = append(c.In, fmt.Sprintf("deliver %d", r.Range(1, next-1)))
			} else {
				c.In = append(c.In, fmt.Sprintf("nego %d %s", next, []string{"in", "out"}[r.Intn(2)]))
				next++
			}
		default:
			if next > 1 {
				c.In = append(c.In, fmt.Sprintf("req %d", r.Range(1, next-1)))
			} else {
				c.In = append(c.In, "reach public")
			}
		}
	}
	return true
}

func TestVerifC13(t *testing.T) {
	vu.Run(t, vu.Config{Prop: "C13", QuickN: 1500, ThoroughN: 40000, Gen: genC13, Exec: func(c *vu.Case) {
		synctest.Test(c.T, func(t *testing.T) { runC13(c) })
	}})
}

//go:build verif

package dht

import (
	"context"
	"os"
	"sync"
	"fmt"
	"sort"
	"strings"
	"testing"
	"time"
	"testing/synctest"

	"github.com/libp2p/go-libp2p/core/event"
	"github.com/libp2p/go-libp2p/core/network"
	"github.com/libp2p/go-libp2p/core/peer"

	vu "github.com/libp2p/go-libp2p-kad-dht/internal/verifutil"
	pb "github.com/libp2p/go-libp2p-kad-dht/pb"
)

// runC12: a history of identification / protocol / probe / lookup events on a real IpfsDHT; after every event the
// routing table is listed.
func runC12(c *vu.Case) {
	a := kv(strings.Fields(c.In[0]))
	n := atoi(a["n"])
	passes := map[peer.ID]bool{}
	w := newWorld(n, "c12-"+a["key"], disableFixLowPeersRoutine(c.T),
		RoutingTableFilter(func(_ any, p peer.ID) bool { return passes[p] }))
	defer w.close()
	idEm, _ := w.h.EventBus().Emitter(new(event.EvtPeerIdentificationCompleted))
	prEm, _ := w.h.EventBus().Emitter(new(event.EvtPeerProtocolsUpdated))
	members := func() string {
		rs := w.ranks(w.d.routingTable.ListPeers())
		sort.Ints(rs)
		return "rt=" + intList(rs)
	}
	c.Out = append(c.Out, members())
	for i := 1; i < len(c.In); i++ {
		f := strings.Fields(c.In[i])
		e := kv(f)
		p := w.peerOf(atoi(e["p"]))
		out := "-"
		switch f[0] {
		case "ident", "proto":
			// the peerstore facts first, then the event
			if len(w.h.Net().ConnsToPeer(p)) == 0 {
				w.h.Net().AddConn(p, network.DirOutbound, nil)
			}
			if e["proto"] == "1" {
				_ = w.h.Peerstore().AddProtocols(p, w.d.protocols...)
			} else {
				_ = w.h.Peerstore().RemoveProtocols(p, w.d.protocols...)
			}
			passes[p] = e["filt"] == "1"
			if f[0] == "ident" {
				_ = idEm.Emit(event.EvtPeerIdentificationCompleted{Peer: p})
			} else {
				_ = prEm.Emit(event.EvtPeerProtocolsUpdated{Peer: p})
			}
			settle()
			out = fmt.Sprintf("%s probing=%s", members(), intList(w.parkedRanks("req")))
		case "fixlow":
			// the periodic sweep over the connected peers (`fixLowPeers`), which hands every one of them to `peerFound`.
			// Which connected peers advertise the protocol and pass the filter right now is a fact the harness set
			// itself (ident / proto lines): it is written into the line for the model.
			var valid []int
			for r := 0; r < n; r++ {
				q := w.peerOf(r)
				if len(w.h.Net().ConnsToPeer(q)) == 0 || !passes[q] {
					continue
				}
				if ps, err := w.h.Peerstore().SupportsProtocols(q, w.d.protocols...); err == nil && len(ps) > 0 {
					valid = append(valid, r)
				}
			}
			c.In[i] = "fixlow valid=" + strings.Trim(intList(valid), "[]")
			w.d.fixLowPeers()
			settle()
			out = fmt.Sprintf("%s probing=%s", members(), intList(w.parkedRanks("req")))
		case "probe": // the outcome of the admission probe in flight for p
			pk := w.findParked(atoi(e["p"]))
			if pk == nil {
				out = members() + " noprobe"
				break
			}
			switch e["res"] {
			case "ok":
				w.sender.release(pk, parkedResult{resp: w.closerPeersMsg(pk.msg, []int{(atoi(e["p"]) + 1) % n})})
			case "empty": // an empty answer is acceptable while the table is small
				w.sender.release(pk, parkedResult{resp: &pb.Message{Type: pk.msg.GetType(), Key: pk.msg.GetKey()}})
			default:
				w.sender.release(pk, parkedResult{err: errScripted})
			}
			settle()
			out = fmt.Sprintf("%s probing=%s", members(), intList(w.parkedRanks("req")))
		case "lookup":
			// a closest-peers lookup: every peer asked behaves as scripted (res=<p>:<ok|fail|dial>,...; default ok, an
			// answer names the peers in know=<p>:<a.b.c>|...); cancelat=<k>: the caller cancels after k outcomes.
			// The concrete sequence of outcomes is written back into the case.
			res := map[int]string{}
			for _, t := range splitNonEmpty(e["res"], ",") {
				x := strings.Split(t, ":")
				res[atoi(x[0])] = x[1]
			}
			know := map[int][]int{}
			for _, t := range splitNonEmpty(e["know"], "|") {
				x := strings.Split(t, ":")
				know[atoi(x[0])] = parseInts(x[1], ".")
			}
			for r, b := range res {
				w.dialFail[w.peerOf(r)] = b == "dial" || b == "sdial"
				if b == "dial" || b == "sdial" {
					// the connection to the peer is gone (a member too can have to be dialled again)
					w.h.Net().Disconnect(w.peerOf(r))
				}
			}
			// admission probes still in flight are not part of the lookup
			pre := map[*parked]bool{}
			for _, pk := range w.sender.Parked() {
				pre[pk] = true
			}
			ctx, cancel := context.WithCancel(context.Background())
			// requests issued after the lookup has logically terminated belong to the follow-up phase: they call the
			// query function directly and neither admit nor evict
			ctx, lev := RegisterForLookupEvents(ctx)
			// (the lookup proper announces every peer it asks in a lookup event; the follow-up phase does not)
			var termMu sync.Mutex
			asks := map[int]int{}
			terminated := false
			go func() {
				for ev := range lev {
					if ev.Terminate != nil {
						termMu.Lock()
						terminated = true
						termMu.Unlock()
					}
					if ev.Request != nil {
						termMu.Lock()
						for _, p := range ev.Request.Waiting {
							asks[w.rankOf(p.Peer)]++
						}
						termMu.Unlock()
					}
				}
			}()
			done := make(chan struct{})
			go func() {
				defer close(done)
				_, _ = w.d.GetClosestPeers(ctx, w.key)
			}()
			settle()
			cancelAt := atoi(e["cancelat"])
			var evs []string
			cancelled := 0
			for round := 0; round < 500; round++ {
				if cancelAt >= 0 && len(evs) == cancelAt && cancelled == 0 {
					cancel()
					cancelled = 1
					settle()
				}
				var ps []*parked
				for _, pk := range w.sender.Parked() {
					if !pre[pk] {
						ps = append(ps, pk)
					}
				}
				if len(ps) == 0 {
					break
				}
				sort.Slice(ps, func(x, y int) bool {
					rx, ry := w.rankOf(ps[x].peer), w.rankOf(ps[y].peer)
					return rx < ry || rx == ry && ps[x].seq < ps[y].seq
				})
				pk := ps[0]
				r := w.rankOf(pk.peer)
				b := res[r]
				if b == "" {
					b = "ok"
				}
				termMu.Lock()
				followup := asks[r] == 0
				if !followup {
					asks[r]--
				}
				termMu.Unlock()
				if followup {
					// no event for the model
					if b == "ok" && pk.kind != "dial" {
						w.sender.release(pk, parkedResult{resp: w.closerPeersMsg(pk.msg, honestAnswer(know[r], r, w.n, 20))})
					} else {
						w.sender.release(pk, parkedResult{err: errScripted})
					}
					settle()
					continue
				}
				if pk.kind == "dial" && b == "sdial" {
					// a dial that fails only after a quarter of a minute
					time.Sleep(15 * time.Second)
					settle()
				}
				termMu.Lock()
				over := terminated
				termMu.Unlock()
				// a call whose own context has ended returns that error: it is no verdict about the peer — provided somebody
				// ended it: the caller, or the lookup when it terminated. A call that lost its context while the lookup is
				// still running and nobody cancelled is a failure like any other as far as the property goes.
				if pk.ctx.Err() != nil && (cancelled == 1 || over) {
					w.sender.release(pk, parkedResult{ctxErr: true})
					evs = append(evs, fmt.Sprintf("%d:%s:1", r, "fail"))
				} else if pk.ctx.Err() != nil {
					w.sender.release(pk, parkedResult{ctxErr: true})
					evs = append(evs, fmt.Sprintf("%d:fail:0", r))
				} else if pk.kind == "dial" || b == "fail" || b == "dial" || b == "sdial" {
					w.sender.release(pk, parkedResult{err: errScripted})
					evs = append(evs, fmt.Sprintf("%d:fail:0", r))
				} else {
					w.sender.release(pk, parkedResult{resp: w.closerPeersMsg(pk.msg, honestAnswer(know[r], r, w.n, 20))})
					evs = append(evs, fmt.Sprintf("%d:ok:0", r))
				}
				settle()
				if os.Getenv("VERIF_DEBUG") != "" {
					fmt.Fprintln(os.Stderr, "DBG after", evs[len(evs)-1], pk.kind, members())
				}
			}
			<-done
			cancel()
			settle()
			for r := range res {
				delete(w.dialFail, w.peerOf(r))
			}
			var keep []string
			for _, x := range f {
				if !strings.HasPrefix(x, "events=") {
					keep = append(keep, x)
				}
			}
			c.In[i] = strings.Join(keep, " ") + " events=" + strings.Join(evs, ",")
			out = members()
		}
		c.Out = append(c.Out, out)
	}
}

func TestVerifC12(t *testing.T) {
	vu.Run(t, vu.Config{Prop: "C12", QuickN: 1200, ThoroughN: 30000,
		Gen: func(r *vu.RNG, c *vu.Case) bool {
			n := r.Range(2, 9)
			c.In = append(c.In, fmt.Sprintf("rt n=%d key=%d", n, c.Idx))
			steps := r.Range(3, 22)
			nl := 0
			for i := 0; i < steps; i++ {
				p := r.Intn(n)
				switch x := r.Intn(10); {
				case x < 3:
					c.In = append(c.In, fmt.Sprintf("%s p=%d proto=%d filt=%d", []string{"ident", "proto"}[r.Intn(2)], p,
						[]int{1, 1, 1, 0}[r.Intn(4)], []int{1, 1, 1, 0}[r.Intn(4)]))
				case x < 4:
					c.In = append(c.In, "fixlow")
				case x < 6:
					c.In = append(c.In, fmt.Sprintf("probe p=%d res=%s", p, []string{"ok", "ok", "fail", "empty"}[r.Intn(4)]))
				default:
					var res, know []string
					for q := 0; q < n; q++ {
						if r.Chance(1, 4) {
							res = append(res, fmt.Sprintf("%d:%s", q, []string{"fail", "dial", "fail", "dial", "sdial"}[r.Intn(5)]))
						}
						if r.Chance(1, 2) {
							var ks []string
							for j := 0; j < r.Range(1, 3); j++ {
								ks = append(ks, fmt.Sprint(r.Intn(n)))
							}
							know = append(know, fmt.Sprintf("%d:%s", q, strings.Join(ks, ".")))
						}
					}
					cancelAt := -1
					if r.Chance(1, 3) {
						cancelAt = r.Intn(n + 1)
					}
					c.In = append(c.In, fmt.Sprintf("lookup res=%s know=%s cancelat=%d", strings.Join(res, ","), strings.Join(know, "|"), cancelAt))
					nl++
				}
			}
			if nl >= 2 {
				c.Tag("nontrivial")
			}
			return true
		}, Exec: func(c *vu.Case) { synctest.Test(c.T, func(t *testing.T) { runC12(c) }) }})
}

//go:build verif

package dht

import (
	"context"
	"fmt"
	"sort"
	"strings"
	"testing"
	"testing/synctest"
	"time"

	kb "github.com/libp2p/go-libp2p-kbucket"
	"github.com/libp2p/go-libp2p/core/peer"
	ma "github.com/multiformats/go-multiaddr"

	"github.com/libp2p/go-libp2p-kad-dht/qpeerset"
	vu "github.com/libp2p/go-libp2p-kad-dht/internal/verifutil"
)

type simPeer struct {
	beh  byte  // h honest, l liar, f request fails, d dial fails, s silent
	list []int // honest: the peers it knows; liar: the answer verbatim
}

func stateLetter(s qpeerset.PeerState) string {
	return [...]string{"h", "w", "q", "u"}[int(s)]
}

// honestAnswer: the K nearest peers (by rank) the peer knows, never itself and never the requester.
func honestAnswer(known []int, self, requester, k int) []int {
	ks := append([]int(nil), known...)
	sort.Ints(ks)
	var out []int
	for _, x := range ks {
		if x == self || x == requester {
			continue
		}
		if len(out) > 0 && out[len(out)-1] == x {
			continue
		}
		out = append(out, x)
		if len(out) == k {
			break
		}
	}
	return out
}

func runC01(c *vu.Case) {
	var w *world
	defer func() {
		if w != nil {
			w.close()
		}
	}()
	a := kv(strings.Fields(c.In[0]))
	n, K := atoi(a["n"]), atoi(a["K"])
	peers := map[int]simPeer{}
	if strings.HasPrefix(a["peers"], "@") {
		// the network is derived from the real identifiers: "@bc:<seed>" = k-bucket complete,
		// "@full" = everybody knows everybody; the header is rewritten with the concrete knowledge
		w0 := newWorld(n, "key-"+a["key"], disableFixLowPeersRoutine(c.T))
		spec := genKnowledge(w0, a["peers"], K)
		w0.close()
		f0 := strings.Fields(c.In[0])
		for j := range f0 {
			if strings.HasPrefix(f0[j], "peers=") {
				f0[j] = "peers=" + spec
			}
		}
		c.In[0] = strings.Join(f0, " ")
		a = kv(f0)
	}
	for _, t := range splitNonEmpty(a["peers"], "|") {
		p := strings.SplitN(t, ":", 3)
		peers[atoi(p[0])] = simPeer{beh: p[1][0], list: parseInts(p[2], ".")}
	}
	wopts := []Option{BucketSize(K), Concurrency(atoi(a["a"])), Resiliency(atoi(a["b"])), disableFixLowPeersRoutine(c.T)}
	if a["qf"] != "" && a["qf"] != "-" {
		wopts = append(wopts, QueryFilter(PublicQueryFilter))
	}
	w = newWorld(n, "key-"+a["key"], wopts...)
	if a["qf"] != "" && a["qf"] != "-" {
		w.qf = a["qf"]
		for r := 0; r < len(w.qf) && r < n; r++ {
			if w.qf[r] == 'k' {
				// an address learned earlier (a previous lookup, identify): it passes the filter
				w.h.Peerstore().AddAddrs(w.peerOf(r), []ma.Multiaddr{vAddr(r+1, 8, false)}, time.Hour)
			}
		}
	}
	if lim := atoi(a["div"]); lim > 0 {
		// the lookup-level IP diversity filter (the routing table itself stays unfiltered)
		w.d.rtPeerDiversityFilter = NewRTPeerDiversityFilter(w.h, 1000, lim)
		w.groupSize = max(1, atoi(a["gs"]))
	}
	for r, sp := range peers {
		if sp.beh == 'd' {
			w.dialFail[w.peerOf(r)] = true
		}
	}
	for _, r := range parseInts(a["rt"], ",") {
		_, _ = w.d.routingTable.TryAddPeer(w.peerOf(r), true, false)
	}
	// what the routing table really holds is an input of the model
	rt := w.ranks(w.d.routingTable.ListPeers())
	sort.Ints(rt)
	f0 := strings.Fields(c.In[0])
	for j := range f0 {
		if strings.HasPrefix(f0[j], "rt=") {
			f0[j] = "rt=" + strings.Trim(intList(rt), "[]")
			if len(rt) == 0 {
				f0[j] = "rt=-"
			}
		}
	}
	c.In[0] = strings.Join(f0, " ")

	ctx, cancel := context.WithCancel(context.Background())
	defer cancel()
	ctx, events := RegisterForLookupEvents(ctx)
	var evlog []string
	evDone := make(chan struct{})
	go func() {
		defer close(evDone)
		for ev := range events {
			switch {
			case ev.Request != nil:
				for _, p := range ev.Request.Waiting {
					evlog = append(evlog, fmt.Sprintf("ask:%d", w.rankOf(p.Peer)))
				}
			case ev.Response != nil:
				r := ev.Response
				var heard []int
				for _, p := range r.Heard {
					heard = append(heard, w.rankOf(p.Peer))
				}
				cause := -1
				if r.Cause != nil {
					cause = w.rankOf(r.Cause.Peer)
				}
				kind := "q"
				if len(r.Unreachable) > 0 {
					kind = "u"
				} else if len(r.Queried) == 0 {
					kind = "seed"
				}
				evlog = append(evlog, fmt.Sprintf("upd:%d:%s:%s", cause, kind, strings.Trim(strings.ReplaceAll(intList(heard), ",", "."), "[]")))
			case ev.Terminate != nil:
				evlog = append(evlog, "term:"+ev.Terminate.Reason.String())
			}
		}
	}()

	type lookupOut struct {
		res   *lookupWithFollowupResult
		peers []peer.ID
		err   error
	}
	done := make(chan lookupOut, 1)
	key := w.key
	public := a["api"] == "public"
	go func() {
		if public {
			ps, err := w.d.GetClosestPeers(ctx, key)
			done <- lookupOut{peers: ps, err: err}
			return
		}
		res, err := w.d.runLookupWithFollowup(ctx, key, w.d.pmGetClosestPeers(key), func(*qpeerset.QueryPeerset) bool { return false })
		done <- lookupOut{res: res, err: err}
	}()
	settle()
	c.Out = append(c.Out, "inflight="+intList(w.parkedRanks("req", "dial")))

	cancelled, failures, responses, reordered := false, 0, 0, false
	finished := false
	for i := 1; i < len(c.In); i++ {
		f := strings.Fields(c.In[i])
		out := "-"
		switch f[0] {
		case "next", "deliver":
			parkedNow := w.parkedRanks("req", "dial")
			var rank int
			if f[0] == "next" {
				// silent peers never answer
				var cand []int
				for _, r := range parkedNow {
					if peers[r].beh != 's' {
						cand = append(cand, r)
					}
				}
				if len(cand) == 0 {
					c.In[i] = "nop"
					out = "inflight=" + intList(parkedNow)
					break
				}
				parkedNow = cand
				rank = parkedNow[atoi(f[1])%len(parkedNow)]
				if rank != parkedNow[0] {
					reordered = true
				}
			} else {
				rank = atoi(f[1])
			}
			pk := w.findParked(rank)
			if pk == nil {
				out = "not-inflight"
				break
			}
			sp := peers[rank]
			var concrete string
			if f[0] == "deliver" {
				concrete = c.In[i]
				if f[2] == "fail" {
					w.sender.release(pk, parkedResult{err: errScripted})
					failures++
				} else {
					w.sender.release(pk, parkedResult{resp: w.closerPeersMsg(pk.msg, parseInts(strings.TrimPrefix(f[2], "resp="), ","))})
					responses++
				}
			} else {
				switch {
				case pk.kind == "dial" || sp.beh == 'f' || sp.beh == 'd':
					w.sender.release(pk, parkedResult{err: errScripted})
					concrete = fmt.Sprintf("deliver %d fail", rank)
					failures++
				case sp.beh == 'l':
					w.sender.release(pk, parkedResult{resp: w.closerPeersMsg(pk.msg, sp.list)})
					concrete = fmt.Sprintf("deliver %d resp=%s", rank, strings.Trim(intList(sp.list), "[]"))
					responses++
					failures++ // a lie counts as a fault for the non-triviality rule
				default:
					ans := honestAnswer(sp.list, rank, w.n, K)
					w.sender.release(pk, parkedResult{resp: w.closerPeersMsg(pk.msg, ans)})
					concrete = fmt.Sprintf("deliver %d resp=%s", rank, strings.Trim(intList(ans), "[]"))
					responses++
				}
				c.In[i] = concrete
			}
			settle()
			out = "inflight=" + intList(w.parkedRanks("req", "dial"))
		case "cancel":
			cancel()
			cancelled = true
			settle()
			out = "inflight=" + intList(w.parkedRanks("req", "dial"))
		case "finish":
			finished = true
			// a search that is still running when the schedule ends is abandoned by its caller
			for _, pk := range w.sender.Parked() {
				if pk.ctx.Err() == nil && !cancelled {
					cancel()
					cancelled = true
					c.In[i] = "finish abandon"
					settle()
					break
				}
			}
			// let every call still parked return: leftovers of the search phase get their context error,
			// follow-up requests (and silent peers) an empty answer
			for round := 0; round < 8; round++ {
				for _, pk := range w.sender.Parked() {
					if pk.ctx.Err() != nil {
						w.sender.release(pk, parkedResult{ctxErr: true})
					} else if pk.kind == "dial" {
						w.sender.release(pk, parkedResult{err: errScripted})
					} else {
						w.sender.release(pk, parkedResult{resp: w.closerPeersMsg(pk.msg, nil)})
					}
				}
				settle()
			}
			var asked []int
			w.sender.mu.Lock()
			for _, l := range w.sender.log {
				var kind string
				var pn, t int
				fmt.Sscanf(l, "%s %d %d", &kind, &pn, &t)
				if kind == "req" {
					asked = append(asked, w.rankOf(vPeer(pn)))
				}
			}
			w.sender.mu.Unlock()
			sort.Ints(asked)
			select {
			case lo := <-done:
				errS := "nil"
				if lo.err != nil {
					errS = lo.err.Error()
					if lo.err == context.Canceled {
						errS = "canceled"
					}
				}
				if public {
					out = fmt.Sprintf("peers=%s err=%s asked=%s", intList(w.ranks(lo.peers)), errS, intList(asked))
				} else if lo.res == nil {
					out = fmt.Sprintf("nores err=%s", errS)
				} else {
					var st []string
					for _, s := range lo.res.state {
						st = append(st, stateLetter(s))
					}
					comp := 0
					if lo.res.completed {
						comp = 1
					}
					out = fmt.Sprintf("peers=%s states=%s closest=%s completed=%d err=%s asked=%s", intList(w.ranks(lo.res.peers)),
						strings.Join(st, ""), intList(w.ranks(lo.res.closest)), comp, errS, intList(asked))
				}
			default:
				out = "HANG: the lookup did not return after every call was released"
			}
			cancel()
			<-evDone
			term := "none"
			var evs []string
			for _, e := range evlog {
				if strings.HasPrefix(e, "term:") {
					term = strings.TrimPrefix(e, "term:")
				} else {
					evs = append(evs, e)
				}
			}
			if cancelled {
				// once the context is cancelled, publishing races with ctx.Done: events may be dropped
				out += " events=(cancelled)"
			} else {
				out += " term=" + term + " events=" + strings.Join(evs, ";")
			}
		default:
			out = "bad-op"
		}
		c.Out = append(c.Out, out)
	}
	if !finished {
		// never leave the bubble with blocked goroutines
		cancel()
		for round := 0; round < 6; round++ {
			for _, pk := range w.sender.Parked() {
				w.sender.release(pk, parkedResult{err: errScripted})
			}
			settle()
		}
		<-evDone
	}
	if responses >= 3 && failures >= 1 && reordered {
		c.Tag("nontrivial")
	}
	if cancelled {
		c.Tag("cancelled")
	}
	c.Tag(fmt.Sprintf("api-%s", a["api"]))
}

// genKnowledge computes, from the peers' real Kademlia identifiers, who knows whom.
func genKnowledge(w *world, mode string, K int) string {
	r := vu.NewRNG(uint64(len(mode))*7919 + uint64(w.n))
	if i := strings.IndexByte(mode, ':'); i > 0 {
		r = vu.NewRNG(uint64(atoi(mode[i+1:])))
	}
	var specs []string
	for c := 0; c < w.n; c++ {
		var known []int
		if strings.HasPrefix(mode, "@full") {
			for m := 0; m < w.n; m++ {
				known = append(known, m)
			}
		} else {
			// buckets of c by common prefix length of the SHA-256 identifiers
			buckets := map[int][]int{}
			cid := kb.ConvertPeerID(w.pool[c])
			for m := 0; m < w.n; m++ {
				if m != c {
					cpl := kb.CommonPrefixLen(cid, kb.ConvertPeerID(w.pool[m]))
					buckets[cpl] = append(buckets[cpl], m)
				}
			}
			for _, b := range buckets {
				if len(b) < K {
					known = append(known, b...) // a non-full bucket: knows all of it
				} else {
					r.Shuffle(len(b), func(i, j int) { b[i], b[j] = b[j], b[i] })
					known = append(known, b[:K]...) // a full bucket: K of its members
				}
			}
		}
		sort.Ints(known)
		ss := make([]string, len(known))
		for i, x := range known {
			ss[i] = fmt.Sprint(x)
		}
		specs = append(specs, fmt.Sprintf("%d:h:%s", c, strings.Join(ss, ".")))
	}
	return strings.Join(specs, "|")
}

func genC02(r *vu.RNG, c *vu.Case) bool {
	n := r.Range(1, 60)
	if c.Tier == "thorough" && r.Chance(1, 3) {
		n = r.Range(60, 400)
	}
	K := []int{1, 2, 3, 3, 4, 5, 8, 20}[r.Intn(8)]
	alpha := r.Range(1, K+2)
	beta := r.Range(1, K+2)
	mode := fmt.Sprintf("@bc:%d", r.Intn(1000000))
	if r.Chance(1, 4) {
		mode = "@full"
	}
	var rt []string
	for p := 0; p < n; p++ {
		if r.Chance(1, 6) || len(rt) == 0 && p == n-1 {
			rt = append(rt, fmt.Sprint(p))
		}
	}
	c.In = append(c.In, fmt.Sprintf("lookup n=%d key=%d K=%d a=%d b=%d api=core mode=%s rt=%s peers=%s", n, c.Idx, K, alpha, beta,
		strings.TrimRight(strings.SplitN(mode, ":", 2)[0], ":"), strings.Join(rt, ","), mode))
	policy := r.Intn(4)
	for i := 0; i < 3*n+6; i++ {
		switch policy {
		case 0:
			c.In = append(c.In, "next 0")
		case 1:
			c.In = append(c.In, "next 1000003")
		case 2:
			c.In = append(c.In, fmt.Sprintf("next %d", r.Intn(1000)))
		default:
			c.In = append(c.In, fmt.Sprintf("next %d", 999-i%3))
		}
	}
	c.In = append(c.In, "finish")
	c.Tag("mode-" + mode[:3])
	if n >= 4 {
		c.Tag("nontrivial")
	}
	return true
}

func TestVerifC02(t *testing.T) {
	vu.Run(t, vu.Config{Prop: "C02", QuickN: 500, ThoroughN: 20000, Gen: genC02, Exec: func(c *vu.Case) {
		synctest.Test(c.T, func(t *testing.T) { runC01(c) })
	}})
}

func genC01(r *vu.RNG, c *vu.Case) bool {
	n := r.Range(1, 40)
	if c.Tier == "thorough" && r.Chance(1, 4) {
		n = r.Range(40, 300)
	}
	K := []int{1, 2, 3, 3, 4, 5, 8, 20}[r.Intn(8)]
	alpha := r.Range(1, K+2)
	beta := r.Range(1, K+2)
	api := "core"
	if r.Chance(1, 4) {
		api = "public"
	}
	// knowledge: each peer knows a random subset, biased towards its neighbourhood in rank space
	var specs []string
	faultPct := []int{0, 10, 30, 60, 100}[r.Intn(5)]
	for p := 0; p < n; p++ {
		beh := "h"
		if r.Intn(100) < faultPct {
			beh = []string{"f", "d", "s", "l", "l"}[r.Intn(5)]
		}
		var list []int
		switch beh {
		case "l":
			m := r.Range(0, 3*K+2)
			for j := 0; j < m; j++ {
				x := r.Intn(n + 1) // n = the local node itself
				list = append(list, x)
			}
		default:
			m := r.Range(0, min(n, 2*K+3))
			for j := 0; j < m; j++ {
				if r.Bool() {
					list = append(list, r.Intn(n))
				} else {
					list = append(list, max(0, min(n-1, p+r.Range(-6, 6))))
				}
			}
			if r.Chance(1, 5) {
				for j := 0; j < n; j++ {
					list = append(list, j) // knows everyone
				}
			}
		}
		ss := make([]string, len(list))
		for i, x := range list {
			ss[i] = fmt.Sprint(x)
		}
		specs = append(specs, fmt.Sprintf("%d:%s:%s", p, beh, strings.Join(ss, ".")))
	}
	var rt []string
	for p := 0; p < n; p++ {
		if r.Chance(1, 3) || len(rt) == 0 && p == n-1 {
			rt = append(rt, fmt.Sprint(p))
		}
	}
	div, gs := 0, 1
	if r.Chance(1, 4) {
		div, gs = r.Range(1, 3), r.Range(1, 4)
	}
	qf := "-"
	if div == 0 && r.Chance(1, 4) {
		// an address-based query filter: some peers only have addresses it rejects, for some the passing address is not
		// in the response but already in the peerstore
		b := make([]byte, n)
		for i := range b {
			b[i] = "pppxk"[r.Intn(5)]
		}
		qf = string(b)
	}
	c.In = append(c.In, fmt.Sprintf("lookup n=%d key=%d K=%d a=%d b=%d api=%s div=%d gs=%d qf=%s rt=%s peers=%s", n, c.Idx, K, alpha, beta, api,
		div, gs, qf, strings.Join(rt, ","), strings.Join(specs, "|")))
	if qf != "-" {
		c.Tag("query-filter")
	}
	if div > 0 {
		c.Tag("diversity-filter")
	}
	steps := r.Range(1, 3*n+4)
	policy := r.Intn(4)
	cancelAt := -1
	if r.Chance(1, 6) {
		cancelAt = r.Intn(steps)
	}
	for i := 0; i < steps; i++ {
		if i == cancelAt {
			c.In = append(c.In, "cancel")
		}
		switch policy {
		case 0:
			c.In = append(c.In, "next 0") // nearest first (FIFO-like)
		case 1:
			c.In = append(c.In, "next 1000003") // an arbitrary fixed stride
		case 2:
			c.In = append(c.In, fmt.Sprintf("next %d", r.Intn(1000)))
		default:
			c.In = append(c.In, fmt.Sprintf("next %d", 999-i%3)) // farthest-ish first
		}
	}
	c.In = append(c.In, "finish")
	return true
}

func TestVerifC01(t *testing.T) {
	vu.Run(t, vu.Config{Prop: "C01", QuickN: 800, ThoroughN: 30000, Gen: genC01, Exec: func(c *vu.Case) {
		synctest.Test(c.T, func(t *testing.T) { runC01(c) })
	}})
}

//go:build verif

package net

import (
	"context"
	"errors"
	"fmt"
	"sort"
	"strconv"
	"strings"
	"sync"
	"testing"
	"testing/synctest"

	"github.com/libp2p/go-libp2p/core/network"
	"github.com/libp2p/go-libp2p/core/peer"
	"github.com/libp2p/go-libp2p/core/protocol"
	"github.com/multiformats/go-varint"
	"google.golang.org/protobuf/proto"

	"github.com/libp2p/go-libp2p-kad-dht/internal/simnet"
	vu "github.com/libp2p/go-libp2p-kad-dht/internal/verifutil"
	pb "github.com/libp2p/go-libp2p-kad-dht/pb"
)

func nPeer(n int) peer.ID { return peer.ID(fmt.Sprintf("verif-peer-%027d", n)) }

func nPeerNum(p peer.ID) int {
	s := strings.TrimLeft(strings.TrimPrefix(string(p), "verif-peer-"), "0")
	if s == "" {
		return 0
	}
	n, _ := strconv.Atoi(s)
	return n
}

// netWorld: the real message sender over fake streams with a scripted remote per peer.
type netWorld struct {
	h  *simnet.Host
	ms pb.MessageSenderWithDisconnect

	mu      sync.Mutex
	behs    map[int][]string // per peer: what the remote does with the next request it reads
	opens   map[int][]bool   // per peer: outcomes of NewStream
	streams map[int][]*simnet.Stream
	opened  int
	maxLive map[int]int // per peer: the largest number of simultaneously open streams seen
	gate    chan struct{} // when non-nil NewStream waits for it (to make concurrent first calls overlap)
}

func (w *netWorld) liveCount(p int) int {
	n := 0
	// the sender's own view: streams it has neither reset nor closed
	for _, s := range w.streams[p] {
		if !s.WasReset && !s.WasClose {
			n++
		}
	}
	return n
}

func newNetWorld() *netWorld {
	w := &netWorld{behs: map[int][]string{}, opens: map[int][]bool{}, streams: map[int][]*simnet.Stream{}, maxLive: map[int]int{}}
	w.h = simnet.NewHost(nPeer(1000000))
	w.h.NewStreamFn = func(ctx context.Context, p peer.ID, pids ...protocol.ID) (network.Stream, error) {
		id := nPeerNum(p)
		w.mu.Lock()
		gate := w.gate
		w.mu.Unlock()
		if gate != nil {
			select {
			case <-gate:
			case <-ctx.Done():
				return nil, ctx.Err()
			}
		}
		w.mu.Lock()
		ok := true
		if l := w.opens[id]; len(l) > 0 {
			ok, w.opens[id] = l[0], l[1:]
		}
		if !ok {
			w.mu.Unlock()
			return nil, errors.New("scripted: no stream")
		}
		conns := w.h.Net().ConnsToPeer(p)
		var conn *simnet.Conn
		if len(conns) > 0 {
			conn = conns[0].(*simnet.Conn)
		} else {
			conn = w.h.Net().AddConn(p, network.DirOutbound, nil)
		}
		s := conn.NewSimStream(pids[0], network.DirOutbound)
		w.streams[id] = append(w.streams[id], s)
		w.opened++
		if n := w.liveCount(id); n > w.maxLive[id] {
			w.maxLive[id] = n
		}
		w.mu.Unlock()
		go w.remote(id, s)
		return s, nil
	}
	w.ms = NewMessageSenderImpl(w.h, []protocol.ID{"/verif/kad/1.0.0"})
	return w
}

// remote serves one stream: reads framed messages and acts as scripted.
func (w *netWorld) remote(id int, s *simnet.Stream) {
	r := s.Remote()
	var buf []byte
	tmp := make([]byte, 4096)
	for {
		// a complete frame?
		for {
			l, n, err := varint.FromUvarint(buf)
			if err == nil && uint64(len(buf)-n) >= l {
				frame := buf[n : n+int(l)]
				buf = buf[n+int(l):]
				req := new(pb.Message)
				_ = proto.Unmarshal(frame, req)
				w.mu.Lock()
				beh := "ok"
				if l := w.behs[id]; len(l) > 0 {
					beh, w.behs[id] = l[0], l[1:]
				}
				w.mu.Unlock()
				if req.GetType() != pb.Message_FIND_NODE && beh != "reset" {
					beh = "taken" // a message expects no answer: the remote either takes it or resets the stream
				}
				switch beh {
				case "ok":
					if req.GetType() == pb.Message_FIND_NODE { // requests are FIND_NODE, messages ADD_PROVIDER
						resp := pb.NewMessage(req.GetType(), req.GetKey(), 0)
						raw, _ := proto.Marshal(resp)
						r.Write(append(varint.ToUvarint(uint64(len(raw))), raw...))
					}
				case "reset":
					r.Reset()
					return
				case "garbage":
					r.Write([]byte{0x05, 0xff, 0xff, 0xff, 0xff, 0x0f})
				case "silent":
				case "eof":
					r.CloseWrite()
				}
				continue
			}
			break
		}
		n, err := r.Read(tmp)
		if err != nil {
			return
		}
		buf = append(buf, tmp[:n]...)
	}
}

func nErr(err error) string {
	switch {
	case err == nil:
		return "nil"
	case errors.Is(err, context.Canceled):
		return "canceled"
	case errors.Is(err, ErrReadTimeout):
		return "timeout"
	case strings.Contains(err.Error(), "scripted: no stream"):
		return "open"
	}
	return "error"
}

func reqMsg(id int) *pb.Message {
	return pb.NewMessage(pb.Message_FIND_NODE, []byte(fmt.Sprintf("id-%d", id)), 0)
}

func replyID(m *pb.Message) string {
	if m == nil {
		return "nil"
	}
	return strings.TrimPrefix(string(m.GetKey()), "id-")
}

func runNet(c *vu.Case) {
	w := newNetWorld()
	defer w.h.Close()
	ctx := context.Background()
	for i, line := range c.In {
		f := strings.Fields(line)
		a := map[string]string{}
		for _, x := range f {
			if j := strings.IndexByte(x, '='); j > 0 {
				a[x[:j]] = x[j+1:]
			}
		}
		p, _ := strconv.Atoi(a["p"])
		id, _ := strconv.Atoi(a["id"])
		out := "-"
		before := w.opened
		switch f[0] {
		case "script": // script p=<peer> behs=a,b,c opens=1,0
			w.mu.Lock()
			if a["behs"] != "" && a["behs"] != "-" {
				w.behs[p] = append(w.behs[p], strings.Split(a["behs"], ",")...)
			}
			if a["opens"] != "" && a["opens"] != "-" {
				for _, x := range strings.Split(a["opens"], ",") {
					w.opens[p] = append(w.opens[p], x == "1")
				}
			}
			w.mu.Unlock()
		case "req":
			cctx, cancel := context.WithCancel(ctx)
			var resp *pb.Message
			var err error
			done := make(chan struct{})
			go func() {
				defer close(done)
				resp, err = w.ms.SendRequest(cctx, nPeer(p), reqMsg(id))
			}()
			synctest.Wait()
			if a["cancel"] == "1" {
				cancel()
			}
			<-done
			cancel()
			synctest.Wait()
			res := nErr(err)
			if err == nil {
				res = replyID(resp)
			}
			w.mu.Lock()
			out = fmt.Sprintf("res=%s opened=%d live=%d", res, w.opened-before, w.liveCount(p))
			w.mu.Unlock()
		case "reqpre":
			// a request whose context has already ended: whether it still gets the per-peer lock is a coin flip of
			// `select`; what happened is read back and becomes part of the (rewritten) case
			w.mu.Lock()
			delete(w.behs, p)
			delete(w.opens, p)
			w.mu.Unlock()
			cctx, cancel := context.WithCancel(ctx)
			cancel()
			resp, err := w.ms.SendRequest(cctx, nPeer(p), reqMsg(id))
			synctest.Wait()
			res := nErr(err)
			if err == nil {
				res = replyID(resp)
			}
			// every `select` between "go on" and "the context has ended" is a coin flip: the call is cancelled at some point,
			// or wins them all and comes back with the reply to its own request
			if res == "canceled" || res == fmt.Sprint(id) {
				res = "canceled-or-own"
			}
			w.mu.Lock()
			c.In[i] = fmt.Sprintf("reqpre p=%d id=%d opened=%d live=%d", p, id, w.opened-before, w.liveCount(p))
			out = fmt.Sprintf("res=%s opened=%d live=%d", res, w.opened-before, w.liveCount(p))
			w.mu.Unlock()
		case "msg":
			m := pb.NewMessage(pb.Message_ADD_PROVIDER, []byte(fmt.Sprintf("id-%d", id)), 0)
			err := w.ms.SendMessage(ctx, nPeer(p), m)
			synctest.Wait()
			res := "sent"
			if err != nil {
				res = nErr(err)
			}
			w.mu.Lock()
			out = fmt.Sprintf("res=%s opened=%d live=%d", res, w.opened-before, w.liveCount(p))
			w.mu.Unlock()
		case "disconnect":
			w.ms.OnDisconnect(ctx, nPeer(p))
			synctest.Wait()
			w.mu.Lock()
			out = fmt.Sprintf("live=%d", w.liveCount(p))
			w.mu.Unlock()
		case "parfail": // parfail p=<peer> first=<id> waiters=<id>,<id> then=<id>
			// the first request's NewStream is held back and then FAILS while other requests for the same peer wait behind
			// it on the same sender; a further request follows once all of them have returned
			w.ms.OnDisconnect(ctx, nPeer(p)) // start from no sender for this peer
			synctest.Wait()
			gate := make(chan struct{})
			w.mu.Lock()
			w.gate = gate
			delete(w.behs, p)
			w.opens[p] = []bool{false}
			w.maxLive[p] = w.liveCount(p)
			w.mu.Unlock()
			type one struct {
				id   int
				resp *pb.Message
				err  error
			}
			run := func(o *one, wg *sync.WaitGroup) {
				defer wg.Done()
				o.resp, o.err = w.ms.SendRequest(ctx, nPeer(p), reqMsg(o.id))
			}
			show := func(o *one) string {
				if o.err != nil {
					return nErr(o.err)
				}
				return replyID(o.resp)
			}
			var wg sync.WaitGroup
			fid, _ := strconv.Atoi(a["first"])
			first := &one{id: fid}
			wg.Add(1)
			go run(first, &wg)
			synctest.Wait() // the first request is inside NewStream
			var waiters []*one
			for _, t := range strings.Split(a["waiters"], ",") {
				ii, _ := strconv.Atoi(t)
				o := &one{id: ii}
				waiters = append(waiters, o)
				wg.Add(1)
				go run(o, &wg)
			}
			synctest.Wait() // the others wait for the sender's lock
			close(gate)
			w.mu.Lock()
			w.gate = nil
			w.mu.Unlock()
			wg.Wait()
			synctest.Wait()
			tid, _ := strconv.Atoi(a["then"])
			then := &one{id: tid}
			wg.Add(1)
			go run(then, &wg)
			wg.Wait()
			synctest.Wait()
			var ws []string
			for _, o := range waiters {
				ws = append(ws, fmt.Sprintf("%d:%s", o.id, show(o)))
			}
			w.mu.Lock()
			out = fmt.Sprintf("first=%s waiters=[%s] then=%s opened=%d live=%d maxlive=%d", show(first), strings.Join(ws, ","), show(then), w.opened-before, w.liveCount(p), w.maxLive[p])
			w.mu.Unlock()
		case "abandon": // abandon p=<peer> first=<id> kind=<msg|req> then=<id>
			// a request holds the peer's sender (its NewStream is held back); a message or request queued behind it is
			// abandoned by its caller (context cancelled while it waits for the sender); another request follows; only then
			// does the first one get its stream.  Exchanges with one peer stay serialized and every reply is its request's.
			w.ms.OnDisconnect(ctx, nPeer(p))
			synctest.Wait()
			gate := make(chan struct{})
			w.mu.Lock()
			w.gate = gate
			delete(w.behs, p)
			delete(w.opens, p)
			w.maxLive[p] = w.liveCount(p)
			w.mu.Unlock()
			type one struct {
				id   int
				resp *pb.Message
				err  error
			}
			show := func(o *one) string {
				if o.err != nil {
					return nErr(o.err)
				}
				return replyID(o.resp)
			}
			var wg sync.WaitGroup
			fid, _ := strconv.Atoi(a["first"])
			first := &one{id: fid}
			wg.Add(1)
			go func() {
				defer wg.Done()
				first.resp, first.err = w.ms.SendRequest(ctx, nPeer(p), reqMsg(first.id))
			}()
			synctest.Wait() // inside NewStream, holding the sender
			cctx, cancel := context.WithCancel(ctx)
			var aerr error
			wg.Add(1)
			go func() {
				defer wg.Done()
				if a["kind"] == "msg" {
					aerr = w.ms.SendMessage(cctx, nPeer(p), reqMsg(999999))
				} else {
					_, aerr = w.ms.SendRequest(cctx, nPeer(p), reqMsg(999999))
				}
			}()
			synctest.Wait() // queued behind the first request
			cancel()
			synctest.Wait()
			tid, _ := strconv.Atoi(a["then"])
			then := &one{id: tid}
			wg.Add(1)
			go func() {
				defer wg.Done()
				then.resp, then.err = w.ms.SendRequest(ctx, nPeer(p), reqMsg(then.id))
			}()
			synctest.Wait()
			close(gate)
			w.mu.Lock()
			w.gate = nil
			w.mu.Unlock()
			wg.Wait()
			synctest.Wait()
			w.mu.Lock()
			out = fmt.Sprintf("first=%s abandoned=%s then=%s opened=%d live=%d maxlive=%d", show(first), nErr(aerr), show(then), w.opened-before, w.liveCount(p), w.maxLive[p])
			w.mu.Unlock()
		case "par": // par reqs=<p>:<id>,<p>:<id>,...  — concurrent requests, NewStream held back until all are under way
			type one struct {
				p, id int
				resp  *pb.Message
				err   error
			}
			var calls []*one
			for _, t := range strings.Split(a["reqs"], ",") {
				x := strings.Split(t, ":")
				pp, _ := strconv.Atoi(x[0])
				ii, _ := strconv.Atoi(x[1])
				calls = append(calls, &one{p: pp, id: ii})
			}
			gate := make(chan struct{})
			w.mu.Lock()
			w.gate = gate
			// which concurrent request meets which scripted fault is not determined: the remotes are healthy here
			for _, cl := range calls {
				delete(w.behs, cl.p)
				delete(w.opens, cl.p)
				w.maxLive[cl.p] = w.liveCount(cl.p)
			}
			w.mu.Unlock()
			var wg sync.WaitGroup
			for _, cl := range calls {
				wg.Add(1)
				go func(cl *one) {
					defer wg.Done()
					cl.resp, cl.err = w.ms.SendRequest(ctx, nPeer(cl.p), reqMsg(cl.id))
				}(cl)
			}
			synctest.Wait()
			close(gate)
			w.mu.Lock()
			w.gate = nil
			w.mu.Unlock()
			wg.Wait()
			synctest.Wait()
			var rs []string
			for _, cl := range calls {
				r := nErr(cl.err)
				if cl.err == nil {
					r = replyID(cl.resp)
				}
				rs = append(rs, fmt.Sprintf("%d:%s", cl.id, r))
			}
			sort.Strings(rs)
			w.mu.Lock()
			var ml []string
			var ps []int
			inv := map[int]bool{}
			for _, cl := range calls {
				if !inv[cl.p] {
					inv[cl.p] = true
					ps = append(ps, cl.p)
				}
			}
			sort.Ints(ps)
			for _, pp := range ps {
				ml = append(ml, fmt.Sprintf("%d:%d", pp, w.maxLive[pp]))
			}
			out = fmt.Sprintf("res=[%s] opened=%d maxlive=[%s]", strings.Join(rs, ","), w.opened-before, strings.Join(ml, ","))
			w.mu.Unlock()
		}
		_ = i
		c.Out = append(c.Out, out)
	}
}

func TestVerifC11(t *testing.T) {
	vu.Run(t, vu.Config{Prop: "C11", QuickN: 1500, ThoroughN: 40000,
		Gen: func(r *vu.RNG, c *vu.Case) bool {
			npeers := r.Range(1, 3)
			steps := r.Range(3, 25)
			id := 0
			faulty := r.Intn(4) // 0: healthy remote
			nfault := 0
			for i := 0; i < steps; i++ {
				p := r.Intn(npeers)
				switch x := r.Intn(20); {
				case x < 4 && faulty > 0:
					var bs []string
					for j := 0; j < r.Range(1, 3); j++ {
						bs = append(bs, []string{"ok", "reset", "garbage", "silent", "eof", "reset", "silent"}[r.Intn(7)])
					}
					opens := "-"
					if r.Chance(1, 4) {
						opens = []string{"0", "0,1", "1,0", "0,0"}[r.Intn(4)]
					}
					c.In = append(c.In, fmt.Sprintf("script p=%d behs=%s opens=%s", p, strings.Join(bs, ","), opens))
					nfault++
				case x < 12:
					id++
					cancel := 0
					if r.Chance(1, 6) {
						cancel = 1
					}
					c.In = append(c.In, fmt.Sprintf("req p=%d id=%d cancel=%d", p, id, cancel))
				case x < 14:
					id++
					c.In = append(c.In, fmt.Sprintf("msg p=%d id=%d", p, id))
				case x < 15:
					id++
					c.In = append(c.In, fmt.Sprintf("reqpre p=%d id=%d", p, id))
				case x < 17:
					c.In = append(c.In, fmt.Sprintf("disconnect p=%d", p))
				case x < 18 && r.Bool():
					id += 2
					c.In = append(c.In, fmt.Sprintf("abandon p=%d first=%d kind=%s then=%d", p, id-1, []string{"msg", "req"}[r.Intn(2)], id))
				case x < 18:
					var ws []string
					first := id + 1
					for j := 0; j < r.Range(1, 3); j++ {
						ws = append(ws, fmt.Sprint(id+2+j))
					}
					id += 2 + len(ws)
					c.In = append(c.In, fmt.Sprintf("parfail p=%d first=%d waiters=%s then=%d", p, first, strings.Join(ws, ","), id))
				default:
					var rs []string
					for j := 0; j < r.Range(2, 5); j++ {
						id++
						rs = append(rs, fmt.Sprintf("%d:%d", r.Intn(npeers), id))
					}
					c.In = append(c.In, "par reqs="+strings.Join(rs, ","))
				}
			}
			if nfault >= 2 {
				c.Tag("nontrivial")
			}
			return true
		}, Exec: func(c *vu.Case) { synctest.Test(c.T, func(t *testing.T) { runNet(c) }) }})
}

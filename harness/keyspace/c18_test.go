//go:build verif

package keyspace

import (
	"crypto/sha256"
	"fmt"
	"sort"
	"strconv"
	"strings"
	"testing"

	"github.com/ipfs/go-libdht/kad/key"
	"github.com/ipfs/go-libdht/kad/key/bit256"
	"github.com/ipfs/go-libdht/kad/key/bitstr"
	"github.com/ipfs/go-libdht/kad/trie"
	"github.com/libp2p/go-libp2p/core/peer"
	mh "github.com/multiformats/go-multihash"

	vu "github.com/libp2p/go-libp2p-kad-dht/internal/verifutil"
)

// ---- text helpers -------------------------------------------------------------------------

func kstr(k bitstr.Key) string {
	if len(k) == 0 {
		return "-"
	}
	return string(k)
}

func pkey(s string) bitstr.Key {
	if s == "-" {
		return ""
	}
	return bitstr.Key(s)
}

func klist(ks []bitstr.Key) string {
	if len(ks) == 0 {
		return "[]"
	}
	ss := make([]string, len(ks))
	for i, k := range ks {
		ss[i] = kstr(k)
	}
	return "[" + strings.Join(ss, ",") + "]"
}

func slist(ss []string) string {
	if len(ss) == 0 {
		return "[]"
	}
	return "[" + strings.Join(ss, ",") + "]"
}

func splitList(s string) []string {
	s = strings.TrimPrefix(s, "[")
	s = strings.TrimSuffix(s, "]")
	if s == "" {
		return nil
	}
	return strings.Split(s, ",")
}

func buildTrie(spec string) *trie.Trie[bitstr.Key, string] {
	t := trie.New[bitstr.Key, string]()
	for _, op := range splitList(spec) {
		k := pkey(op[1:])
		switch op[0] {
		case '+':
			t.Add(k, kstr(k))
		case '-':
			t.Remove(k)
		case '^':
			PruneSubtrie(t, k)
		}
	}
	return t
}

func shape[D any](t *trie.Trie[bitstr.Key, D]) string {
	switch {
	case t == nil:
		return "nil"
	case t.IsEmptyLeaf():
		return "."
	case t.IsNonEmptyLeaf():
		return kstr(*t.Key())
	default:
		return "(" + shape(t.Branch(0)) + " " + shape(t.Branch(1)) + ")"
	}
}

// ---- the implementation side of one protocol line -------------------------------------------

func runLine(line string) (out string) {
	defer func() {
		if r := recover(); r != nil {
			out = "panic"
		}
	}()
	f := strings.Fields(line)
	switch f[0] {
	case "shape":
		return shape(buildTrie(f[1]))
	case "entries":
		t := buildTrie(f[1])
		es := AllEntries(t, pkey(f[2]))
		ks := AllKeys(t, pkey(f[2]))
		vs := AllValues(t, pkey(f[2]))
		if len(es) != len(ks) || len(es) != len(vs) {
			return "inconsistent"
		}
		for i := range es {
			if es[i].Key != ks[i] || es[i].Data != vs[i] || vs[i] != kstr(ks[i]) {
				return "inconsistent"
			}
		}
		return klist(ks)
	case "findprefix":
		k, ok := FindPrefixOfKey(buildTrie(f[1]), pkey(f[2]))
		if !ok {
			return "none"
		}
		return kstr(k)
	case "findsub":
		s, ok := FindSubtrie(buildTrie(f[1]), pkey(f[2]))
		if !ok {
			return "none"
		}
		return shape(s)
	case "next":
		e := NextNonEmptyLeaf(buildTrie(f[1]), pkey(f[2]), pkey(f[3]))
		if e == nil {
			return "none"
		}
		return kstr(e.Key)
	case "coalesce":
		t := buildTrie(f[1])
		CoalesceTrie(t)
		return shape(t)
	case "subtract":
		return shape(SubtractTrie(buildTrie(f[1]), buildTrie(f[2])))
	case "gaps":
		return klist(TrieGaps(buildTrie(f[1]), pkey(f[2]), pkey(f[3])))
	case "alloc":
		k, _ := strconv.Atoi(f[3])
		res := AllocateToKClosest(buildTrie(f[1]), buildTrie(f[2]), k)
		dests := make([]string, 0, len(res))
		for d := range res {
			dests = append(dests, d)
		}
		sort.Strings(dests)
		parts := make([]string, 0, len(dests))
		for _, d := range dests {
			var items []string
			for _, b := range res[d] {
				items = append(items, b...)
			}
			sort.Strings(items)
			parts = append(parts, d+":"+strings.Join(items, "/"))
		}
		return slist(parts)
	case "covered":
		return strconv.FormatBool(KeyspaceCovered(buildTrie(f[1])))
	case "extend":
		n, _ := strconv.Atoi(f[2])
		return klist(ExtendBinaryPrefix(pkey(f[1]), n))
	case "siblings":
		return klist(SiblingPrefixes(pkey(f[1])))
	case "sortorder":
		var ks []bitstr.Key
		for _, s := range splitList(f[1]) {
			ks = append(ks, pkey(s))
		}
		sortBitstrKeysByOrder(ks, pkey(f[2]))
		return klist(ks)
	case "isprefix":
		a, b := pkey(f[1]), pkey(f[2])
		r1, r2 := IsBitstrPrefix(a, b), IsPrefix(a, b)
		if r1 != r2 {
			return "inconsistent"
		}
		return strconv.FormatBool(r1)
	case "fliplast":
		return kstr(FlipLastBit(pkey(f[1])))
	}
	return "bad-op"
}

// ---- 256-bit cases: real peer IDs / multihashes whose SHA-256 has a chosen prefix ------------------

func idWithPrefix(r *vu.RNG, prefix string) (string, string) {
	for {
		raw := fmt.Sprintf("verif-%x", r.Next())
		h := sha256.Sum256([]byte(raw))
		bs := key.BitString(bit256.NewKeyFromArray(h))
		if strings.HasPrefix(bs, prefix) {
			return raw, bs
		}
	}
}

// run256 handles the three functions that only exist for 256-bit identifiers. The case line carries
// the identifiers (so the model needs no SHA-256); the raw ids are regenerated from the line's seed.
func run256(line string) (out string) {
	defer func() {
		if r := recover(); r != nil {
			out = "panic"
		}
	}()
	f := strings.Fields(line)
	if f[0] == "regalloc" {
		return runRegAlloc(f)
	}
	rawList := strings.Split(strings.TrimPrefix(f[len(f)-1], "@"), ",")
	keyField := f[2]
	if f[0] == "regions" {
		keyField = strings.ReplaceAll(f[1], "+", "")
	}
	raws := map[string]string{}
	for i, k := range splitList(keyField) {
		if i < len(rawList) {
			raws[k] = rawList[i]
		}
	}
	switch f[0] {
	case "regions":
		// regions <peers as +key,...> <size> <order> <covered> @tag
		var peers []peer.ID
		byKey := map[string]string{}
		for _, op := range splitList(f[1]) {
			raw := raws[op[1:]]
			peers = append(peers, peer.ID(raw))
			byKey[raw] = op[1:]
		}
		size, _ := strconv.Atoi(f[2])
		var ob [32]byte
		for i := 0; i < 256 && i < len(f[3]); i++ {
			if f[3][i] == '1' {
				ob[i/8] |= 1 << (7 - i%8)
			}
		}
		regions := RegionsFromPeers(peers, size, bit256.NewKeyFromArray(ob), pkey(f[4]))
		parts := []string{}
		for _, rg := range regions {
			var ks []string
			for _, e := range AllEntries(rg.Peers, zeroKey) {
				ks = append(ks, byKey[string(e.Data)])
			}
			sort.Strings(ks)
			parts = append(parts, kstr(rg.Prefix)+":"+strings.Join(ks, "/"))
		}
		return slist(parts)
	case "assign":
		// assign <prefixes> <keys> @tag
		var regions []Region
		for _, p := range splitList(f[1]) {
			regions = append(regions, Region{Prefix: pkey(p)})
		}
		var keys []mh.Multihash
		for _, k := range splitList(f[2]) {
			keys = append(keys, mh.Multihash(raws[k]))
		}
		regions = AssignKeysToRegions(regions, keys)
		if len(regions) == 0 {
			return "[]"
		}
		where := map[string][]string{}
		for _, rg := range regions {
			for _, e := range AllEntries(rg.Keys, zeroKey) {
				bs := key.BitString(e.Key)
				where[bs] = append(where[bs], kstr(rg.Prefix))
			}
		}
		var res []string
		for _, k := range splitList(f[2]) {
			res = append(res, strings.Join(where[k], "+"))
		}
		return slist(res)
	case "shortest":
		// shortest <target> <peers sorted by distance> @tag ; the harness passes them shuffled
		var peers []peer.ID
		for _, k := range splitList(f[2]) {
			peers = append(peers, peer.ID(raws[k]))
		}
		// reverse to make sure the function sorts by itself
		for i, j := 0, len(peers)-1; i < j; i, j = i+1, j-1 {
			peers[i], peers[j] = peers[j], peers[i]
		}
		p, ps := ShortestCoveredPrefix(pkey(f[1]), peers)
		return kstr(p) + " " + strconv.Itoa(len(ps))
	}
	return "bad-op"
}

// runRegAlloc is the composition the sweeping provider performs for every explored prefix:
// RegionsFromPeers, AssignKeysToRegions, then AllocateToKClosest(region.Keys, region.Peers, r) per region.
//
//	regalloc <peers as +key,...> <r> <order> <covered> <item keys> @<peer raws>;<item raws>
//
// out: [prefix>peer/peer>dest:item/item;dest:item, ...]  (regions in the order returned)
func runRegAlloc(f []string) string {
	tag := strings.SplitN(strings.TrimPrefix(f[len(f)-1], "@"), ";", 2)
	praw, iraw := strings.Split(tag[0], ","), strings.Split(tag[1], ",")
	var peers []peer.ID
	peerKey := map[peer.ID]string{}
	for i, op := range splitList(f[1]) {
		id := peer.ID(praw[i])
		peers = append(peers, id)
		peerKey[id] = op[1:]
	}
	var keys []mh.Multihash
	itemKey := map[string]string{}
	for i, k := range splitList(f[5]) {
		keys = append(keys, mh.Multihash(iraw[i]))
		itemKey[iraw[i]] = k
	}
	r, _ := strconv.Atoi(f[2])
	var ob [32]byte
	for i := 0; i < 256 && i < len(f[3]); i++ {
		if f[3][i] == '1' {
			ob[i/8] |= 1 << (7 - i%8)
		}
	}
	regions := RegionsFromPeers(peers, r, bit256.NewKeyFromArray(ob), pkey(f[4]))
	regions = AssignKeysToRegions(regions, keys)
	parts := []string{}
	for _, rg := range regions {
		var ps []string
		for _, e := range AllEntries(rg.Peers, zeroKey) {
			ps = append(ps, peerKey[e.Data])
		}
		sort.Strings(ps)
		res := AllocateToKClosest(rg.Keys, rg.Peers, r)
		var dparts []string
		for d, batches := range res {
			var items []string
			for _, b := range batches {
				for _, m := range b {
					items = append(items, itemKey[string(m)])
				}
			}
			sort.Strings(items)
			dparts = append(dparts, peerKey[d]+":"+strings.Join(items, "/"))
		}
		sort.Strings(dparts)
		parts = append(parts, kstr(rg.Prefix)+">"+strings.Join(ps, "/")+">"+strings.Join(dparts, ";"))
	}
	return slist(parts)
}

func rawTag(keys []string, raws map[string]string) string {
	rs := make([]string, len(keys))
	for i, k := range keys {
		rs[i] = raws[k]
	}
	return "@" + strings.Join(rs, ",")
}

// ---- enumeration of prefix-free sets ------------------------------------------------------------

func pfCount(d int) int {
	n := 2
	for i := 0; i < d; i++ {
		n = n*n + 1
	}
	return n
}

// pfSet decodes index idx (< pfCount(d)) into the idx-th prefix-free set below `path` with at most d more bits.
func pfSet(idx, d int, path string) []string {
	if idx == 0 {
		return nil
	}
	if idx == 1 {
		return []string{path}
	}
	f := pfCount(d - 1)
	j := idx - 1
	return append(pfSet(j/f, d-1, path+"0"), pfSet(j%f, d-1, path+"1")...)
}

func allStrings(maxLen int, exact bool) []string {
	var res []string
	for l := 0; l <= maxLen; l++ {
		if exact && l != maxLen {
			continue
		}
		for v := 0; v < 1<<l; v++ {
			s := ""
			for i := l - 1; i >= 0; i-- {
				s += string(rune('0' + (v>>i)&1))
			}
			res = append(res, s)
		}
	}
	return res
}

func adds(ks []string) string {
	if len(ks) == 0 {
		return "[]"
	}
	ss := make([]string, len(ks))
	for i, k := range ks {
		if k == "" {
			k = "-"
		}
		ss[i] = "+" + k
	}
	return "[" + strings.Join(ss, ",") + "]"
}

func dash(s string) string {
	if s == "" {
		return "-"
	}
	return s
}

const nBlocks = 12

// exhaustiveBlock emits every case of one function over all prefix-free sets of keys of <= n bits.
func exhaustiveBlock(block, n int, c *vu.Case) {
	total := pfCount(n)
	anyKeys := allStrings(n+1, false)
	orders := allStrings(n+1, true)
	fullKeys := allStrings(n, true)
	for si := 0; si < total; si++ {
		set := pfSet(si, n, "")
		sp := adds(set)
		switch block {
		case 0:
			for _, o := range orders {
				c.In = append(c.In, "entries "+sp+" "+o)
			}
			c.In = append(c.In, "shape "+sp, "covered "+sp, "coalesce "+sp)
		case 1:
			for _, k := range anyKeys {
				c.In = append(c.In, "findprefix "+sp+" "+dash(k), "findsub "+sp+" "+dash(k))
			}
		case 2:
			for _, k := range anyKeys {
				c.In = append(c.In, "shape "+strings.TrimSuffix(sp, "]")+",^"+dash(k)+"]")
				if len(set) == 0 {
					c.In[len(c.In)-1] = "shape [^" + dash(k) + "]"
				}
			}
		case 3:
			ks := append([]string{}, fullKeys...)
			ks = append(ks, set...)
			for _, k := range ks {
				if k == "" {
					continue
				}
				for _, o := range orders {
					c.In = append(c.In, "next "+sp+" "+k+" "+o)
				}
			}
		case 4:
			for _, tg := range allStrings(n, false) {
				for _, o := range orders {
					c.In = append(c.In, "gaps "+sp+" "+dash(tg)+" "+o)
				}
			}
		case 5:
			for sj := 0; sj < total; sj++ {
				c.In = append(c.In, "subtract "+sp+" "+adds(pfSet(sj, n, "")))
			}
		case 6:
			for _, k := range set {
				// remove then shape: exercises shrink
				c.In = append(c.In, "shape "+strings.TrimSuffix(sp, "]")+",-"+dash(k)+"]")
			}
		}
	}
	switch block {
	case 7:
		// allocation over all subsets of the n-bit keys
		m := len(fullKeys)
		for a := 1; a < 1<<m; a++ {
			for b := 1; b < 1<<m; b++ {
				var items, dests []string
				for i := 0; i < m; i++ {
					if a>>i&1 == 1 {
						items = append(items, fullKeys[i])
					}
					if b>>i&1 == 1 {
						dests = append(dests, fullKeys[i])
					}
				}
				for k := 0; k <= len(dests)+1; k++ {
					c.In = append(c.In, "alloc "+adds(items)+" "+adds(dests)+" "+strconv.Itoa(k))
				}
			}
		}
	case 8:
		for _, k := range allStrings(n+2, false) {
			c.In = append(c.In, "siblings "+dash(k), "fliplast "+dash(k))
			for e := 0; e <= len(k)+3; e++ {
				c.In = append(c.In, "extend "+dash(k)+" "+strconv.Itoa(e))
			}
			for _, k2 := range allStrings(n+1, false) {
				c.In = append(c.In, "isprefix "+dash(k)+" "+dash(k2))
			}
		}
	case 9:
		for si := 0; si < total; si++ {
			set := pfSet(si, n, "")
			if len(set) < 2 {
				continue
			}
			for _, o := range orders {
				c.In = append(c.In, "sortorder "+strings.ReplaceAll(adds(set), "+", "")+" "+o)
			}
		}
	}
	if len(c.In) == 0 {
		c.In = append(c.In, "shape []")
	}
	c.Tag("exhaustive")
	c.Tag(fmt.Sprintf("block%d", block))
}

// randomPF draws a prefix-free set of keys of at most n bits, clustered under a random prefix.
func randomPF(r *vu.RNG, n, want int) []string {
	base := r.Bits(r.Intn(n/2 + 1))
	var set []string
	for tries := 0; tries < want*4 && len(set) < want; tries++ {
		l := r.Range(1, n)
		var k string
		if r.Chance(3, 4) && l >= len(base) {
			k = base + r.Bits(l-len(base))
		} else {
			k = r.Bits(l)
		}
		ok := true
		for _, s := range set {
			if strings.HasPrefix(s, k) || strings.HasPrefix(k, s) {
				ok = false
				break
			}
		}
		if ok {
			set = append(set, k)
		}
	}
	return set
}

func randomFull(r *vu.RNG, n, want int) []string {
	base := r.Bits(r.Intn(n/2 + 1))
	seen := map[string]bool{}
	var set []string
	for tries := 0; tries < want*4 && len(set) < want; tries++ {
		var k string
		if r.Chance(3, 4) {
			k = base + r.Bits(n-len(base))
		} else {
			k = r.Bits(n)
		}
		if !seen[k] {
			seen[k] = true
			set = append(set, k)
		}
	}
	return set
}

// buildOps turns a key set into a builder spec with random insertion order and, sometimes, extra
// remove / prune ops so that non-canonical trie shapes are reached.
func buildOps(r *vu.RNG, set []string, n int, c *vu.Case) string {
	ks := append([]string{}, set...)
	r.Shuffle(len(ks), func(i, j int) { ks[i], ks[j] = ks[j], ks[i] })
	var ops []string
	for _, k := range ks {
		ops = append(ops, "+"+dash(k))
	}
	if r.Chance(1, 3) && len(ks) > 0 {
		c.Tag("build-remove")
		k := ks[r.Intn(len(ks))]
		ops = append(ops, "-"+dash(k))
		if r.Bool() {
			ops = append(ops, "+"+dash(k))
		}
	}
	if r.Chance(1, 3) && len(ks) > 0 {
		c.Tag("build-prune")
		k := ks[r.Intn(len(ks))]
		ops = append(ops, "^"+dash(k[:r.Intn(len(k)+1)]))
	}
	if r.Chance(1, 3) && len(ks) > 0 {
		// several prunes in a row, also of prefixes nothing starts with (a prefix of a key with its last bit flipped walks into
		// a leaf that does not match): pruning must agree with its definition on the shapes earlier prunes leave behind
		c.Tag("build-prunes")
		for j, m := 0, r.Range(2, 4); j < m; j++ {
			k := ks[r.Intn(len(ks))]
			p := k[:r.Intn(len(k)+1)]
			if len(p) > 0 && r.Bool() {
				b := []byte(p)
				b[len(b)-1] ^= 1 // '0' <-> '1'
				p = string(b)
			}
			ops = append(ops, "^"+dash(p))
		}
	}
	if len(ops) == 0 {
		return "[]"
	}
	return "[" + strings.Join(ops, ",") + "]"
}

func randomCase(r *vu.RNG, c *vu.Case) {
	n := []int{4, 5, 6, 8, 12, 256}[r.Intn(6)]
	want := r.Range(1, 24)
	c.Tag(fmt.Sprintf("bits%d", n))
	switch r.Intn(16) {
	case 0:
		set := randomPF(r, n, want)
		c.In = append(c.In, "entries "+buildOps(r, set, n, c)+" "+r.Bits(n+1))
	case 1:
		set := randomPF(r, n, want)
		k := r.Bits(r.Intn(n + 1))
		if len(set) > 0 && r.Bool() {
			s := set[r.Intn(len(set))]
			k = s + r.Bits(r.Intn(3))
		}
		sp := buildOps(r, set, n, c)
		c.In = append(c.In, "findprefix "+sp+" "+dash(k), "findsub "+sp+" "+dash(k[:r.Intn(len(k)+1)]))
	case 2:
		set := randomFull(r, n, want)
		k := r.Bits(n)
		if r.Bool() {
			k = set[r.Intn(len(set))]
		}
		c.In = append(c.In, "next "+buildOps(r, set, n, c)+" "+k+" "+r.Bits(n+1))
	case 3:
		set := randomPF(r, n, want)
		if len(set) == 0 {
			set = []string{"0"}
		}
		k := set[r.Intn(len(set))]
		c.In = append(c.In, "next "+adds(set)+" "+k+" "+r.Bits(n+1))
	case 4:
		set := randomPF(r, n, want)
		c.In = append(c.In, "coalesce "+buildOps(r, set, n, c), "covered "+adds(set))
	case 5:
		// a covering set: split random leaves of a full cover, then maybe drop one
		cover := []string{"0", "1"}
		for i := 0; i < want; i++ {
			j := r.Intn(len(cover))
			if len(cover[j]) < n {
				k := cover[j]
				cover[j] = k + "0"
				cover = append(cover, k+"1")
			}
		}
		if r.Chance(1, 3) {
			j := r.Intn(len(cover))
			cover = append(cover[:j], cover[j+1:]...)
			c.Tag("cover-minus-one")
		}
		r.Shuffle(len(cover), func(i, j int) { cover[i], cover[j] = cover[j], cover[i] })
		c.In = append(c.In, "covered "+adds(cover), "coalesce "+adds(cover), "gaps "+adds(cover)+" "+dash(r.Bits(r.Intn(3)))+" "+r.Bits(n+1))
	case 6:
		a, b := randomPF(r, n, want), randomPF(r, n, r.Range(0, 6))
		if r.Bool() && len(a) > 0 {
			k := a[r.Intn(len(a))]
			b = append([]string{}, k[:r.Intn(len(k)+1)])
		}
		c.In = append(c.In, "subtract "+buildOps(r, a, n, c)+" "+buildOps(r, b, n, c))
	case 7:
		set := randomPF(r, n, want)
		tg := r.Bits(r.Intn(n/2 + 1))
		if len(set) > 0 && r.Bool() {
			s := set[r.Intn(len(set))]
			tg = s[:r.Intn(len(s)+1)]
		}
		c.In = append(c.In, "gaps "+buildOps(r, set, n, c)+" "+dash(tg)+" "+r.Bits(n+1))
	case 8, 9:
		items, dests := randomFull(r, n, want), randomFull(r, n, r.Range(1, 30))
		k := r.Range(0, len(dests)+1)
		if r.Bool() {
			k = r.Range(1, 5)
		}
		c.In = append(c.In, "alloc "+adds(items)+" "+adds(dests)+" "+strconv.Itoa(k))
	case 10:
		// regions from real peer ids
		raws := map[string]string{}
		cov := r.Bits(r.Intn(5))
		var keys []string
		npeers := r.Range(1, 40)
		for i := 0; i < npeers; i++ {
			pre := cov
			if r.Chance(1, 2) {
				pre += r.Bits(r.Intn(5))
			}
			// the provider hands over every peer its lookups returned, also peers outside the covered prefix, but it
			// only settles on a covered prefix that at least one (in fact r) of them matches: the first peer always does
			if i > 0 && r.Chance(1, 10) {
				pre = r.Bits(len(cov))
			}
			raw, bs := idWithPrefix(r, pre)
			raws[bs] = raw
			keys = append(keys, bs)
		}
		tag := rawTag(keys, raws)
		c.In = append(c.In, fmt.Sprintf("regions %s %d %s %s %s", adds(keys), r.Range(1, 8), r.Bits(256), dash(cov), tag))
		c.Tag("sha256-ids")
	case 11:
		raws := map[string]string{}
		prefixes := randomPF(r, 5, r.Range(1, 6))
		if len(prefixes) == 0 {
			prefixes = []string{""}
		}
		var keys []string
		for i := 0; i < r.Range(1, 20); i++ {
			pre := ""
			if r.Bool() {
				pre = prefixes[r.Intn(len(prefixes))]
			} else {
				pre = r.Bits(r.Intn(4))
			}
			raw, bs := idWithPrefix(r, pre)
			raws[bs] = raw
			keys = append(keys, bs)
		}
		tag := rawTag(keys, raws)
		ps := make([]string, len(prefixes))
		for i, p := range prefixes {
			ps[i] = dash(p)
		}
		c.In = append(c.In, fmt.Sprintf("assign %s %s %s", slist(ps), slist(keys), tag))
		c.Tag("sha256-ids")
	case 12:
		raws := map[string]string{}
		target := r.Bits(r.Range(0, 10))
		if r.Chance(1, 4) {
			target = r.Bits(256)
		}
		var keys []string
		for i := 0; i < r.Range(0, 25); i++ {
			pre := target[:r.Intn(min(len(target), 10)+1)]
			if r.Chance(1, 3) && len(pre) > 0 {
				pre = pre[:len(pre)-1] + string(rune('0'+'1'-pre[len(pre)-1]))
			}
			raw, bs := idWithPrefix(r, pre)
			raws[bs] = raw
			keys = append(keys, bs)
		}
		// sort by xor distance to the zero-padded target, as the model expects
		padded := target + strings.Repeat("0", 256-len(target))
		sort.Slice(keys, func(i, j int) bool {
			for b := 0; b < 256; b++ {
				x, y := keys[i][b] != padded[b], keys[j][b] != padded[b]
				if x != y {
					return !x
				}
			}
			return false
		})
		c.In = append(c.In, fmt.Sprintf("shortest %s %s %s", dash(target), slist(keys), rawTag(keys, raws)))
		c.Tag("sha256-ids")
	case 14, 15:
		// regions + assignment + allocation, as the provider composes them, on real peer ids and multihashes
		praws, iraws := map[string]string{}, map[string]string{}
		cov := r.Bits(r.Intn(4))
		var pkeys, ikeys []string
		for i, np := 0, r.Range(1, 24); i < np; i++ {
			pre := cov
			if r.Chance(1, 2) {
				pre += r.Bits(r.Intn(4))
			}
			raw, bs := idWithPrefix(r, pre)
			praws[bs] = raw
			pkeys = append(pkeys, bs)
		}
		for i, ni := 0, r.Range(1, 16); i < ni; i++ {
			pre := cov
			if r.Chance(1, 2) {
				pre += r.Bits(r.Intn(5))
			}
			if r.Chance(1, 12) {
				pre = r.Bits(len(cov)) // sometimes outside the covered prefix: nearest-region fallback
			}
			raw, bs := idWithPrefix(r, pre)
			if _, dup := iraws[bs]; dup {
				continue
			}
			iraws[bs] = raw
			ikeys = append(ikeys, bs)
		}
		tag := rawTag(pkeys, praws) + ";" + strings.TrimPrefix(rawTag(ikeys, iraws), "@")
		c.In = append(c.In, fmt.Sprintf("regalloc %s %d %s %s %s %s", adds(pkeys), r.Range(1, 5), r.Bits(256), dash(cov), slist(ikeys), tag))
		c.Tag("sha256-ids")
	case 13:
		set := randomPF(r, n, want)
		if len(set) >= 2 {
			c.In = append(c.In, "sortorder "+strings.ReplaceAll(adds(set), "+", "")+" "+r.Bits(n+1))
		} else {
			c.In = append(c.In, "siblings "+dash(r.Bits(r.Intn(n+1))))
		}
	}
	f := strings.Fields(c.In[0])
	c.Tag("fn-" + f[0])
	if strings.Count(c.In[0], ",") >= 2 {
		c.Tag("nontrivial")
	}
}

func TestVerifC18(t *testing.T) {
	vu.Run(t, vu.Config{
		Prop: "C18", QuickN: 6000, ThoroughN: 300000,
		Gen: func(r *vu.RNG, c *vu.Case) bool {
			if c.Idx < nBlocks {
				n := 2
				if c.Tier == "thorough" {
					n = 3
				}
				if c.Idx == 7 && n == 3 && false {
					n = 2
				}
				exhaustiveBlock(c.Idx, n, c)
				return true
			}
			randomCase(r, c)
			return true
		},
		Exec: func(c *vu.Case) {
			for _, in := range c.In {
				if strings.Contains(in, " @") {
					c.Out = append(c.Out, run256(in))
				} else {
					c.Out = append(c.Out, runLine(in))
				}
			}
		},
	})
}

//go:build verif

// Package simnet is a minimal in-memory stand-in for a libp2p host, network, connections and
// streams: just the methods go-libp2p-kad-dht calls. Everything is driven by the harness, nothing
// touches a socket or the wall clock, so it can run inside a testing/synctest bubble.
package simnet

import (
	"bytes"
	"context"
	"errors"
	"fmt"
	"io"
	"sync"
	"sync/atomic"
	"time"

	"github.com/libp2p/go-libp2p/core/connmgr"
	"github.com/libp2p/go-libp2p/core/event"
	"github.com/libp2p/go-libp2p/core/host"
	"github.com/libp2p/go-libp2p/core/network"
	"github.com/libp2p/go-libp2p/core/peer"
	"github.com/libp2p/go-libp2p/core/peerstore"
	"github.com/libp2p/go-libp2p/core/protocol"
	"github.com/libp2p/go-libp2p/p2p/host/eventbus"
	"github.com/libp2p/go-libp2p/p2p/host/peerstore/pstoremem"
	ma "github.com/multiformats/go-multiaddr"
)

var ErrReset = network.ErrReset

// ---------------------------------------------------------------------------------------------
// Host

type Host struct {
	host.Host // nil: any method not implemented below panics (a gap in the harness, not in the code)

	id    peer.ID
	ps    peerstore.Peerstore
	bus   event.Bus
	net   *Network
	cm    connmgr.ConnManager
	mu    sync.Mutex
	addrs []ma.Multiaddr

	handlers map[protocol.ID]network.StreamHandler

	// ConnectFn scripts dialing; nil means every dial succeeds immediately.
	ConnectFn func(ctx context.Context, pi peer.AddrInfo) error
	// NewStreamFn scripts outbound streams; nil means "no such peer".
	NewStreamFn func(ctx context.Context, p peer.ID, pids ...protocol.ID) (network.Stream, error)

	Log []string // handler registrations etc.
}

func NewHost(id peer.ID, addrs ...ma.Multiaddr) *Host {
	ps, err := pstoremem.NewPeerstore()
	if err != nil {
		panic(err)
	}
	h := &Host{id: id, ps: ps, bus: eventbus.NewBus(), cm: connmgr.NullConnMgr{}, addrs: addrs,
		handlers: map[protocol.ID]network.StreamHandler{}}
	h.net = &Network{h: h, conns: map[peer.ID][]*Conn{}}
	return h
}

func (h *Host) ID() peer.ID                      { return h.id }
func (h *Host) Peerstore() peerstore.Peerstore   { return h.ps }
func (h *Host) EventBus() event.Bus              { return h.bus }
func (h *Host) Network() network.Network         { return h.net }
func (h *Host) Net() *Network                    { return h.net }
func (h *Host) ConnManager() connmgr.ConnManager { return h.cm }
func (h *Host) Addrs() []ma.Multiaddr {
	h.mu.Lock()
	defer h.mu.Unlock()
	return append([]ma.Multiaddr(nil), h.addrs...)
}
func (h *Host) SetAddrs(a []ma.Multiaddr) {
	h.mu.Lock()
	h.addrs = a
	h.mu.Unlock()
}

func (h *Host) SetStreamHandler(pid protocol.ID, handler network.StreamHandler) {
	h.mu.Lock()
	defer h.mu.Unlock()
	h.handlers[pid] = handler
	h.Log = append(h.Log, "set-handler "+string(pid))
}

func (h *Host) RemoveStreamHandler(pid protocol.ID) {
	h.mu.Lock()
	defer h.mu.Unlock()
	delete(h.handlers, pid)
	h.Log = append(h.Log, "remove-handler "+string(pid))
}

// Handler returns the stream handler registered for pid (nil if none): the harness plays the
// multistream negotiation.
func (h *Host) Handler(pid protocol.ID) network.StreamHandler {
	h.mu.Lock()
	defer h.mu.Unlock()
	return h.handlers[pid]
}

func (h *Host) Protocols() []protocol.ID {
	h.mu.Lock()
	defer h.mu.Unlock()
	var ps []protocol.ID
	for p := range h.handlers {
		ps = append(ps, p)
	}
	return ps
}

func (h *Host) Connect(ctx context.Context, pi peer.AddrInfo) error {
	if h.net.Connectedness(pi.ID) == network.Connected {
		return nil
	}
	if h.ConnectFn != nil {
		if err := h.ConnectFn(ctx, pi); err != nil {
			return err
		}
	}
	if err := ctx.Err(); err != nil {
		return err
	}
	if h.net.Connectedness(pi.ID) != network.Connected {
		h.net.AddConn(pi.ID, network.DirOutbound, nil)
	}
	return nil
}

func (h *Host) NewStream(ctx context.Context, p peer.ID, pids ...protocol.ID) (network.Stream, error) {
	if h.NewStreamFn == nil {
		return nil, errors.New("simnet: no route to peer")
	}
	return h.NewStreamFn(ctx, p, pids...)
}

func (h *Host) Close() error { return h.ps.Close() }

// ---------------------------------------------------------------------------------------------
// Network

type Network struct {
	network.Network // nil

	h         *Host
	mu        sync.Mutex
	conns     map[peer.ID][]*Conn
	notifiees []network.Notifiee
	connSeq   int
}

func (n *Network) Peerstore() peerstore.Peerstore { return n.h.ps }
func (n *Network) LocalPeer() peer.ID             { return n.h.id }

func (n *Network) Connectedness(p peer.ID) network.Connectedness {
	n.mu.Lock()
	defer n.mu.Unlock()
	if len(n.conns[p]) > 0 {
		return network.Connected
	}
	return network.NotConnected
}

func (n *Network) Peers() []peer.ID {
	n.mu.Lock()
	defer n.mu.Unlock()
	var ps []peer.ID
	for p, cs := range n.conns {
		if len(cs) > 0 {
			ps = append(ps, p)
		}
	}
	return ps
}

func (n *Network) Conns() []network.Conn {
	n.mu.Lock()
	defer n.mu.Unlock()
	var cs []network.Conn
	for _, l := range n.conns {
		for _, c := range l {
			cs = append(cs, c)
		}
	}
	return cs
}

func (n *Network) ConnsToPeer(p peer.ID) []network.Conn {
	n.mu.Lock()
	defer n.mu.Unlock()
	var cs []network.Conn
	for _, c := range n.conns[p] {
		cs = append(cs, c)
	}
	return cs
}

func (n *Network) Notify(f network.Notifiee) {
	n.mu.Lock()
	n.notifiees = append(n.notifiees, f)
	n.mu.Unlock()
}

func (n *Network) StopNotify(f network.Notifiee) {
	n.mu.Lock()
	defer n.mu.Unlock()
	for i, x := range n.notifiees {
		if x == f {
			n.notifiees = append(n.notifiees[:i], n.notifiees[i+1:]...)
			return
		}
	}
}

func (n *Network) ClosePeer(p peer.ID) error {
	n.Disconnect(p)
	return nil
}

// AddConn registers a connection to p and notifies Connected.
func (n *Network) AddConn(p peer.ID, dir network.Direction, remote ma.Multiaddr) *Conn {
	n.mu.Lock()
	n.connSeq++
	c := &Conn{n: n, remote: p, dir: dir, raddr: remote, id: fmt.Sprintf("c%d", n.connSeq)}
	n.conns[p] = append(n.conns[p], c)
	nfs := append([]network.Notifiee(nil), n.notifiees...)
	n.mu.Unlock()
	for _, f := range nfs {
		f.Connected(n, c)
	}
	return c
}

// Disconnect drops every connection to p (resetting their streams) and notifies Disconnected.
func (n *Network) Disconnect(p peer.ID) {
	n.mu.Lock()
	cs := n.conns[p]
	delete(n.conns, p)
	nfs := append([]network.Notifiee(nil), n.notifiees...)
	n.mu.Unlock()
	for _, c := range cs {
		c.closed.Store(true)
		for _, s := range c.GetStreams() {
			_ = s.Reset()
		}
		for _, f := range nfs {
			f.Disconnected(n, c)
		}
	}
}

// ---------------------------------------------------------------------------------------------
// Conn

type Conn struct {
	network.Conn // nil

	n       *Network
	id      string
	remote  peer.ID
	dir     network.Direction
	raddr   ma.Multiaddr
	closed  atomic.Bool
	mu      sync.Mutex
	streams []*Stream
}

func (c *Conn) ID() string                   { return c.id }
func (c *Conn) LocalPeer() peer.ID           { return c.n.h.id }
func (c *Conn) RemotePeer() peer.ID          { return c.remote }
func (c *Conn) RemoteMultiaddr() ma.Multiaddr { return c.raddr }
func (c *Conn) LocalMultiaddr() ma.Multiaddr  { return nil }
func (c *Conn) Stat() network.ConnStats {
	return network.ConnStats{Stats: network.Stats{Direction: c.dir}}
}
func (c *Conn) IsClosed() bool { return c.closed.Load() }
func (c *Conn) Close() error {
	c.n.Disconnect(c.remote)
	return nil
}
func (c *Conn) GetStreams() []network.Stream {
	c.mu.Lock()
	defer c.mu.Unlock()
	var ss []network.Stream
	for _, s := range c.streams {
		if !s.Finished() {
			ss = append(ss, s)
		}
	}
	return ss
}

// ---------------------------------------------------------------------------------------------
// Stream: two one-directional buffered pipes. `Stream` is the local (library) end; the harness
// talks through Remote().

type half struct {
	mu     sync.Mutex
	buf    bytes.Buffer
	closed bool // writer closed: EOF after the buffer drains
	reset  bool
	wake   chan struct{}
}

func newHalf() *half { return &half{wake: make(chan struct{}, 1)} }

func (p *half) signal() {
	select {
	case p.wake <- struct{}{}:
	default:
	}
}

func (p *half) write(b []byte) (int, error) {
	p.mu.Lock()
	defer p.mu.Unlock()
	if p.reset {
		return 0, ErrReset
	}
	if p.closed {
		return 0, errors.New("simnet: write on closed stream")
	}
	p.buf.Write(b)
	p.signal()
	return len(b), nil
}

func (p *half) read(b []byte) (int, error) {
	for {
		p.mu.Lock()
		if p.reset {
			p.mu.Unlock()
			return 0, ErrReset
		}
		if p.buf.Len() > 0 {
			n, _ := p.buf.Read(b)
			if p.buf.Len() > 0 {
				p.signal()
			}
			p.mu.Unlock()
			return n, nil
		}
		if p.closed {
			p.mu.Unlock()
			return 0, io.EOF
		}
		p.mu.Unlock()
		<-p.wake
	}
}

func (p *half) close() {
	p.mu.Lock()
	p.closed = true
	p.mu.Unlock()
	p.signal()
}

func (p *half) doReset() {
	p.mu.Lock()
	p.reset = true
	p.mu.Unlock()
	p.signal()
}

type Stream struct {
	network.Stream // nil

	id    string
	conn  *Conn
	proto protocol.ID
	dir   network.Direction
	in    *half // remote -> local
	out   *half // local -> remote

	mu       sync.Mutex
	WasReset bool // local side called Reset
	WasClose bool // local side called Close
	remote   *RemoteEnd
}

var streamSeq atomic.Int64

// NewStream creates a stream on c. dir is the direction as seen by the local (library) side.
func (c *Conn) NewSimStream(pid protocol.ID, dir network.Direction) *Stream {
	s := &Stream{id: fmt.Sprintf("s%d", streamSeq.Add(1)), conn: c, proto: pid, dir: dir, in: newHalf(), out: newHalf()}
	s.remote = &RemoteEnd{s: s}
	c.mu.Lock()
	c.streams = append(c.streams, s)
	c.mu.Unlock()
	return s
}

func (s *Stream) ID() string                      { return s.id }
func (s *Stream) Protocol() protocol.ID           { return s.proto }
func (s *Stream) SetProtocol(p protocol.ID) error { s.proto = p; return nil }
func (s *Stream) Conn() network.Conn              { return s.conn }
func (s *Stream) Stat() network.Stats             { return network.Stats{Direction: s.dir} }
func (s *Stream) Read(b []byte) (int, error)      { return s.in.read(b) }
func (s *Stream) Write(b []byte) (int, error)     { return s.out.write(b) }
func (s *Stream) SetDeadline(time.Time) error      { return nil }
func (s *Stream) SetReadDeadline(time.Time) error  { return nil }
func (s *Stream) SetWriteDeadline(time.Time) error { return nil }
func (s *Stream) Scope() network.StreamScope       { return &network.NullScope{} }
func (s *Stream) CloseWrite() error {
	s.out.close()
	return nil
}
func (s *Stream) CloseRead() error { return nil }
func (s *Stream) Close() error {
	s.mu.Lock()
	s.WasClose = true
	s.mu.Unlock()
	s.out.close()
	return nil
}
func (s *Stream) Reset() error {
	s.mu.Lock()
	s.WasReset = true
	s.mu.Unlock()
	s.in.doReset()
	s.out.doReset()
	return nil
}
func (s *Stream) ResetWithError(network.StreamErrorCode) error { return s.Reset() }
func (s *Stream) Finished() bool {
	s.mu.Lock()
	defer s.mu.Unlock()
	return s.WasReset || s.WasClose
}
func (s *Stream) State() string {
	s.mu.Lock()
	defer s.mu.Unlock()
	switch {
	case s.WasReset:
		return "reset"
	case s.WasClose:
		return "closed"
	}
	return "open"
}
func (s *Stream) Remote() *RemoteEnd { return s.remote }

// RemoteEnd is what the simulated remote peer holds.
type RemoteEnd struct{ s *Stream }

func (r *RemoteEnd) Write(b []byte) (int, error) { return r.s.in.write(b) }
func (r *RemoteEnd) Read(b []byte) (int, error)  { return r.s.out.read(b) }
func (r *RemoteEnd) CloseWrite()                 { r.s.in.close() }
func (r *RemoteEnd) Reset() {
	r.s.in.doReset()
	r.s.out.doReset()
}

// TakeAll returns (and consumes) everything the local side has written so far, also after a reset.
func (r *RemoteEnd) TakeAll() []byte {
	r.s.out.mu.Lock()
	defer r.s.out.mu.Unlock()
	b := append([]byte(nil), r.s.out.buf.Bytes()...)
	r.s.out.buf.Reset()
	return b
}

// Pending reports how many response bytes are buffered for the remote end.
func (r *RemoteEnd) Pending() int {
	r.s.out.mu.Lock()
	defer r.s.out.mu.Unlock()
	return r.s.out.buf.Len()
}

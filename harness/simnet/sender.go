//go:build verif

package simnet

import (
	"context"
	"errors"
	"sync"

	"github.com/libp2p/go-libp2p/core/peer"

	pb "github.com/libp2p/go-libp2p-kad-dht/pb"
)

// Sender is a scripted pb.MessageSenderWithDisconnect: every request parks until the harness releases it.
type Sender struct {
	Name    string
	mu      sync.Mutex
	pending []*Parked
	seq     int
	Log     []string
	// Auto, when set, answers a call at once instead of parking it (ok=false: park after all)
	Auto func(pk *Parked) (r Result, ok bool)
}

type Parked struct {
	Sender *Sender
	Kind   string // "req", "msg"
	Peer   peer.ID
	Msg    *pb.Message
	Ctx    context.Context
	Seq    int
	ch     chan Result
}

type Result struct {
	Resp *pb.Message
	Err  error
	// CtxErr: wait for the context to end and return its error
	CtxErr bool
}

var ErrScripted = errors.New("scripted failure")

func (s *Sender) park(ctx context.Context, kind string, p peer.ID, m *pb.Message) Result {
	pk := &Parked{Sender: s, Kind: kind, Peer: p, Msg: m, Ctx: ctx, ch: make(chan Result, 1)}
	if auto := s.Auto; auto != nil {
		if r, ok := auto(pk); ok {
			if r.CtxErr {
				<-ctx.Done()
				return Result{Err: ctx.Err()}
			}
			return r
		}
	}
	s.mu.Lock()
	s.seq++
	pk.Seq = s.seq
	s.pending = append(s.pending, pk)
	s.mu.Unlock()
	r := <-pk.ch
	if r.CtxErr {
		<-ctx.Done()
		return Result{Err: ctx.Err()}
	}
	return r
}

func (s *Sender) SendRequest(ctx context.Context, p peer.ID, m *pb.Message) (*pb.Message, error) {
	r := s.park(ctx, "req", p, m)
	return r.Resp, r.Err
}

func (s *Sender) SendMessage(ctx context.Context, p peer.ID, m *pb.Message) error {
	return s.park(ctx, "msg", p, m).Err
}

func (s *Sender) OnDisconnect(ctx context.Context, p peer.ID) {}

// Pending returns the parked calls, oldest first.
func (s *Sender) Pending() []*Parked {
	s.mu.Lock()
	defer s.mu.Unlock()
	return append([]*Parked(nil), s.pending...)
}

func (s *Sender) Release(pk *Parked, r Result) {
	s.mu.Lock()
	for i, x := range s.pending {
		if x == pk {
			s.pending = append(s.pending[:i], s.pending[i+1:]...)
			break
		}
	}
	s.mu.Unlock()
	pk.ch <- r
}

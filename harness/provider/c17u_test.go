//go:build verif

package provider_test

import (
	"crypto/sha256"
	"fmt"
	"sort"
	"strings"
	"testing"
	"testing/synctest"
	"time"

	"github.com/ipfs/go-libdht/kad/key"
	"github.com/ipfs/go-libdht/kad/key/bit256"
	mh "github.com/multiformats/go-multihash"

	vu "github.com/libp2p/go-libp2p-kad-dht/internal/verifutil"
	"github.com/libp2p/go-libp2p-kad-dht/provider"
)

// C17u (sibling harness of C17): the scheduling functions and the reprovide history of the sweeping provider, called
// directly on a provider that holds only the scheduling state, against the Lean model KadDHT.SchedT.

func u17Bits(s string) string {
	if s == "e" {
		return ""
	}
	return s
}

func u17Order(bits string) bit256.Key {
	var b [32]byte
	for i, c := range bits {
		if c == '1' {
			b[i/8] |= 1 << (7 - uint(i%8))
		}
	}
	return bit256.NewKeyFromArray(b)
}

var u17KeyCache = map[string]mh.Multihash{}

// u17Key: a multihash whose Kademlia identifier starts with the given 8 bits (deterministic)
func u17Key(bits string) mh.Multihash {
	if h, ok := u17KeyCache[bits]; ok {
		return h
	}
	for n := 0; ; n++ {
		h, _ := mh.Sum([]byte(fmt.Sprintf("verif-u17-%d", n)), mh.SHA2_256, -1)
		id := key.BitString(bit256.NewKeyFromArray(sha256.Sum256(h)))
		if id[:len(bits)] == bits {
			u17KeyCache[bits] = h
			return h
		}
	}
}

func runU17(c *vu.Case) {
	a := map[string]string{}
	for _, f := range strings.Fields(c.In[0]) {
		if i := strings.IndexByte(f, '='); i > 0 {
			a[f[:i]] = f[i+1:]
		}
	}
	sec := func(s string) time.Duration { return time.Duration(atoiSP(s, 0)) * time.Second }
	secs := func(m map[string]string, k string) time.Duration {
		n := 0
		fmt.Sscanf(m[k], "%d", &n)
		return time.Duration(n) * time.Second
	}
	_ = sec
	p := provider.VerifBare(u17Order(a["order"]), secs(a, "I"), secs(a, "D"))
	entries := func() string {
		es := p.VerifEntries()
		for i, e := range es {
			if strings.HasPrefix(e, ":") {
				es[i] = "e" + e
			}
		}
		sort.Strings(es)
		return "[" + strings.Join(es, ",") + "]"
	}
	c.Out = append(c.Out, "ok")
	for i := 1; i < len(c.In); i++ {
		f := strings.Fields(c.In[i])
		e := map[string]string{}
		for _, x := range f {
			if j := strings.IndexByte(x, '='); j > 0 {
				e[x[:j]] = x[j+1:]
			}
		}
		out := "bad-op"
		switch f[0] {
		case "put":
			for _, t := range strings.Split(e["entries"], ",") {
				var pfx string
				var n int
				if j := strings.IndexByte(t, ':'); j >= 0 {
					pfx = u17Bits(t[:j])
					fmt.Sscanf(t[j+1:], "%d", &n)
					p.VerifPut(pfx, time.Duration(n)*time.Second)
				}
			}
			out = entries()
		case "sched":
			p.VerifSetOffset(secs(e, "cur"))
			p.VerifSchedulePrefix(u17Bits(e["p"]), e["just"] == "1")
			out = entries()
		case "unsched":
			p.VerifSetOffset(secs(e, "cur"))
			p.VerifUnschedule(u17Bits(e["p"]))
			out = entries()
		case "slot":
			out = fmt.Sprint(int64(p.VerifSlot(u17Bits(e["p"])) / time.Second))
		case "tb":
			out = fmt.Sprint(int64(p.VerifTimeBetween(secs(e, "a"), secs(e, "b")) / time.Second))
		case "sleep":
			time.Sleep(secs(e, "s"))
			out = "ok"
		case "group":
			p.VerifSetOffset(secs(e, "cur"))
			p.VerifSetAvgPrefixLen(atoiSP(e["avg"], 0), e["valid"] == "1")
			var ks []mh.Multihash
			for _, t := range strings.Split(e["keys"], ",") {
				ks = append(ks, u17Key(t))
			}
			g := p.VerifGroup(ks, e["sched"] == "1")
			var gs []string
			for pf, n := range g {
				if pf == "" {
					pf = "e"
				}
				gs = append(gs, fmt.Sprintf("%s:%d", pf, n))
			}
			sort.Strings(gs)
			out = "groups=[" + strings.Join(gs, ",") + "] " + entries()
		case "hist":
			p.VerifHistory(u17Bits(e["p"]))
			out = "ok"
		case "recent":
			p.VerifSetOffset(secs(e, "cur"))
			rs, err := p.VerifRecent()
			if err != nil {
				out = "err"
				break
			}
			for i, r := range rs {
				if r == "" {
					rs[i] = "e"
				}
			}
			sort.Strings(rs)
			out = "[" + strings.Join(rs, ",") + "]"
		}
		c.Out = append(c.Out, out)
	}
}

func TestVerifC17u(t *testing.T) {
	vu.Run(t, vu.Config{Prop: "C17u", QuickN: 3000, ThoroughN: 60000,
		Gen: func(r *vu.RNG, c *vu.Case) bool {
			I := []int{512, 4096}[r.Intn(2)]
			D := []int{30, 300}[r.Intn(2)]
			bits := func(n int) string {
				if n == 0 {
					return "e"
				}
				var sb strings.Builder
				for i := 0; i < n; i++ {
					sb.WriteByte("01"[r.Intn(2)])
				}
				return sb.String()
			}
			c.In = append(c.In, fmt.Sprintf("u I=%d D=%d order=%s", I, D, bits(32)))
			// a small alphabet of short prefixes, so that prefixes cover and subsume each other often
			short := func() string {
				if r.Chance(1, 20) {
					return "e"
				}
				return bits(r.Range(1, 5))
			}
			steps := r.Range(8, 30)
			hist := false
			for i := 0; i < steps; i++ {
				switch x := r.Intn(20); {
				case x < 6:
					c.In = append(c.In, fmt.Sprintf("sched p=%s just=%d cur=%d", short(), r.Intn(2), r.Intn(I)))
				case x < 8:
					c.In = append(c.In, fmt.Sprintf("unsched p=%s cur=%d", short(), r.Intn(I)))
				case x < 10:
					maxLen := 20
					if I == 512 {
						maxLen = 28
					}
					c.In = append(c.In, fmt.Sprintf("slot p=%s", bits(r.Intn(maxLen+1))))
				case x < 11:
					c.In = append(c.In, fmt.Sprintf("tb a=%d b=%d", r.Intn(I), r.Intn(I)))
				case x < 14:
					var ks []string
					for j, n := 0, r.Range(1, 6); j < n; j++ {
						ks = append(ks, bits(8))
					}
					if r.Chance(1, 3) {
						ks = append(ks, ks[0])
					}
					sc := 1
					if r.Chance(1, 4) {
						sc = 0
					}
					c.In = append(c.In, fmt.Sprintf("group avg=%d valid=%d sched=%d cur=%d keys=%s", r.Intn(6), r.Intn(2), sc, r.Intn(I), strings.Join(ks, ",")))
				case x < 17:
					c.In = append(c.In, "hist p="+short())
					hist = true
				case x < 18:
					c.In = append(c.In, fmt.Sprintf("sleep s=%d", []int{1, r.Intn(I/4) + 1, r.Intn(I) + 1, I, I + r.Intn(I)}[r.Intn(5)]))
				default:
					c.In = append(c.In, fmt.Sprintf("recent cur=%d", r.Intn(I)))
				}
			}
			c.In = append(c.In, fmt.Sprintf("recent cur=%d", r.Intn(I)))
			if hist {
				c.Tag("nontrivial")
			}
			return true
		}, Exec: func(c *vu.Case) {
			synctest.Test(c.T, func(t *testing.T) { runU17(c) })
		}})
}

//go:build verif

package provider

import (
	"github.com/libp2p/go-libp2p-kad-dht/provider/internal/keyspace"
)

// VerifSchedule (verification harness only, injected by overlay): the prefixes currently in the reprovide schedule.
func (s *SweepingProvider) VerifSchedule() []string {
	s.scheduleLk.Lock()
	defer s.scheduleLk.Unlock()
	var out []string
	for _, k := range keyspace.AllKeys(s.schedule, s.order) {
		out = append(out, string(k))
	}
	return out
}

//go:build verif

package provider

import (
	"context"
	"fmt"
	"time"

	"github.com/ipfs/go-datastore"
	dssync "github.com/ipfs/go-datastore/sync"
	logging "github.com/ipfs/go-log/v2"
	"github.com/ipfs/go-libdht/kad/key/bit256"
	"github.com/ipfs/go-libdht/kad/key/bitstr"
	"github.com/ipfs/go-libdht/kad/trie"
	mh "github.com/multiformats/go-multihash"

	"github.com/libp2p/go-libp2p-kad-dht/provider/internal/keyspace"
)

// VerifSchedule (verification harness only, injected by overlay): the prefixes currently in the reprovide schedule.
func (s *SweepingProvider) VerifSchedule() []string {
	s.scheduleLk.Lock()
	defer s.scheduleLk.Unlock()
	var out []string
	for _, k := range keyspace.AllKeys(s.schedule, s.order) {
		out = append(out, string(k))
	}
	return out
}

// VerifBare builds a provider that holds only the scheduling state, as the repository's own
// TestGroupAndScheduleKeysByPrefix does: the scheduling functions are then called directly.
func VerifBare(order bit256.Key, interval, maxDelay time.Duration) *SweepingProvider {
	return &SweepingProvider{
		order:             order,
		reprovideInterval: interval,
		maxReprovideDelay: maxDelay,
		schedule:          trie.New[bitstr.Key, time.Duration](),
		scheduleTimer:     time.NewTimer(time.Hour),
		datastore:         dssync.MutexWrap(datastore.NewMapDatastore()),
		done:              make(chan struct{}),
		ctx:               context.Background(),
		logger:            logging.Logger("verif-bare"),

		cachedAvgPrefixLen: 3,
		lastAvgPrefixLen:   time.Now(),
	}
}

// VerifSetOffset moves the start of the cycle so that the current offset in the cycle is `cur`.
func (s *SweepingProvider) VerifSetOffset(cur time.Duration) { s.cycleStart = time.Now().Add(-cur) }

func (s *SweepingProvider) VerifPut(prefix string, t time.Duration) {
	s.schedule.Add(bitstr.Key(prefix), t)
}

func (s *SweepingProvider) VerifSchedulePrefix(prefix string, justReprovided bool) {
	s.scheduleLk.Lock()
	defer s.scheduleLk.Unlock()
	s.schedulePrefixNoLock(bitstr.Key(prefix), justReprovided)
}

func (s *SweepingProvider) VerifUnschedule(prefix string) {
	s.scheduleLk.Lock()
	defer s.scheduleLk.Unlock()
	s.unscheduleSubsumedPrefixesNoLock(bitstr.Key(prefix))
}

// VerifEntries: the schedule as prefix:seconds, in the schedule's own order.
func (s *SweepingProvider) VerifEntries() []string {
	var out []string
	for _, e := range keyspace.AllEntries(s.schedule, s.order) {
		out = append(out, fmt.Sprintf("%s:%d", string(e.Key), int64(e.Data/time.Second)))
	}
	return out
}

func (s *SweepingProvider) VerifSlot(prefix string) time.Duration {
	return s.reprovideTimeForPrefix(bitstr.Key(prefix))
}

func (s *SweepingProvider) VerifTimeBetween(a, b time.Duration) time.Duration { return s.timeBetween(a, b) }

func (s *SweepingProvider) VerifTimeUntil(d time.Duration) time.Duration { return s.timeUntil(d) }

// VerifSetAvgPrefixLen sets the cached average prefix length, still valid (the cached value is used) or expired (the
// average of the scheduled prefixes' lengths replaces it when the schedule is not empty).
func (s *SweepingProvider) VerifSetAvgPrefixLen(n int, valid bool) {
	s.cachedAvgPrefixLen = n
	s.lastAvgPrefixLen = time.Now()
	s.avgPrefixLenValidity = 0
	if valid {
		s.avgPrefixLenValidity = time.Hour
	}
}

// VerifGroup calls groupAndScheduleKeysByPrefix and returns prefix -> number of keys.
func (s *SweepingProvider) VerifGroup(keys []mh.Multihash, schedule bool) map[string]int {
	out := map[string]int{}
	for p, ks := range s.groupAndScheduleKeysByPrefix(keys, schedule) {
		out[string(p)] = len(ks)
	}
	return out
}

// VerifHistory records a successful reprovide of prefix at the current (virtual) time.
func (s *SweepingProvider) VerifHistory(prefix string) { s.persistSuccessfulReprovide(bitstr.Key(prefix)) }

// VerifRecent: the regions loadRecentlyReprovidedRegions counts as recently reprovided now.
func (s *SweepingProvider) VerifRecent() ([]string, error) {
	t, err := s.loadRecentlyReprovidedRegions(time.Now())
	if err != nil {
		return nil, err
	}
	var out []string
	for _, k := range keyspace.AllKeys(t, s.order) {
		out = append(out, string(k))
	}
	return out, nil
}

//go:build verif

package provider_test

import (
	"context"
	"crypto/sha256"
	"os"
	"errors"
	"fmt"
	"sort"
	"strconv"
	"strings"
	"sync"
	"testing"
	"testing/synctest"
	"time"

	"github.com/ipfs/go-datastore"
	logging "github.com/ipfs/go-log/v2"
	"github.com/ipfs/go-datastore/namespace"
	dssync "github.com/ipfs/go-datastore/sync"
	"github.com/ipfs/go-libdht/kad/key/bitstr"
	kb "github.com/libp2p/go-libp2p-kbucket"
	"github.com/libp2p/go-libp2p/core/peer"
	ma "github.com/multiformats/go-multiaddr"
	mh "github.com/multiformats/go-multihash"

	vu "github.com/libp2p/go-libp2p-kad-dht/internal/verifutil"
	pb "github.com/libp2p/go-libp2p-kad-dht/pb"
	"github.com/libp2p/go-libp2p-kad-dht/provider"
	"github.com/libp2p/go-libp2p-kad-dht/provider/buffered"
	"github.com/libp2p/go-libp2p-kad-dht/provider/keystore"
)

func spPeer(n int) peer.ID { return peer.ID(fmt.Sprintf("verif-peer-%027d", n)) }

func spPeerNum(p peer.ID) int {
	s := strings.TrimLeft(strings.TrimPrefix(string(p), "verif-peer-"), "0")
	if s == "" {
		return 0
	}
	n, _ := strconv.Atoi(s)
	return n
}

// spKey: the multihash of key `id`; its kademlia identifier starts with the two bits id%4 (so that histories can
// place keys in chosen quarters of the keyspace)
var spKeyCache = map[int]mh.Multihash{}

func spKey(id int) mh.Multihash {
	if h, ok := spKeyCache[id]; ok {
		return h
	}
	want := byte(id%4) << 6
	for i := 0; ; i++ {
		h, _ := mh.Sum([]byte(fmt.Sprintf("verif-sp-key-%d-%d", id, i)), mh.SHA2_256, -1)
		d := sha256.Sum256(h)
		if d[0]&0xc0 == want {
			spKeyCache[id] = h
			return h
		}
	}
}

var spKeyIDs = func() map[string]int {
	m := map[string]int{}
	for i := 0; i < 64; i++ {
		m[string(spKey(i))] = i
	}
	return m
}()

// spRouter: the closest-peers router over a swarm that changes over time and can be cut off.
type spRouter struct {
	mu      sync.Mutex
	swarm   []peer.ID
	offline bool
	calls   int
	k       int // how many peers a lookup returns: the replication factor, as a DHT's bucket size
}

func (r *spRouter) nearest(key string, n int) []peer.ID {
	r.mu.Lock()
	defer r.mu.Unlock()
	sorted := kb.SortClosestPeers(append([]peer.ID(nil), r.swarm...), kb.ConvertKey(key))
	return sorted[:min(n, len(sorted))]
}

func (r *spRouter) GetClosestPeers(ctx context.Context, key string) ([]peer.ID, error) {
	r.mu.Lock()
	off := r.offline
	r.calls++
	r.mu.Unlock()
	// (no virtual latency here: the connectivity checker calls the router while holding a sync.Mutex that Close also takes,
	// and a goroutine parked on a sync.Mutex keeps a synctest bubble's clock from advancing; the sender carries the latency)
	if off {
		return nil, errors.New("scripted: no connectivity")
	}
	return r.nearest(key, r.k), nil
}

type spSend struct {
	key, to int
	okAddr  bool
	at      int64 // virtual time of the send, seconds since the bubble's epoch
}

type spSender struct {
	mu    sync.Mutex
	log   []spSend
	self  peer.ID
	addr  ma.Multiaddr
	fails map[int]bool
	// how long one ADD_PROVIDER takes (virtual time)
	latency time.Duration
}

func (s *spSender) SendRequest(context.Context, peer.ID, *pb.Message) (*pb.Message, error) {
	return nil, nil
}

func (s *spSender) SendMessage(ctx context.Context, p peer.ID, m *pb.Message) error {
	// a message takes a moment and, like a real stream write, fails once its context has ended
	lat := s.latency
	if lat <= 0 {
		lat = 7 * time.Millisecond
	}
	tm := time.NewTimer(lat)
	select {
	case <-tm.C:
	case <-ctx.Done():
		tm.Stop()
		return ctx.Err()
	}
	if ctx.Err() != nil {
		return ctx.Err()
	}
	s.mu.Lock()
	defer s.mu.Unlock()
	if s.fails[spPeerNum(p)] {
		return errors.New("scripted: recipient unreachable")
	}
	ok := len(m.GetProviderPeers()) == 1
	if ok {
		pp := m.GetProviderPeers()[0]
		ok = string(pp.Id) == string(s.self) && len(pp.Addrs) == 1 && string(pp.Addrs[0]) == string(s.addr.Bytes())
	}
	k, known := spKeyIDs[string(m.GetKey())]
	if !known {
		k = -1
	}
	s.log = append(s.log, spSend{key: k, to: spPeerNum(p), okAddr: ok, at: time.Now().Unix() - 946684800})
	if os.Getenv("VERIF_DEBUG") != "" {
		fmt.Fprintln(os.Stderr, "DBG send key", k, "to", spPeerNum(p), "t", time.Now().Unix()-946684800)
	}
	return nil
}

func (s *spSender) take() []spSend {
	s.mu.Lock()
	defer s.mu.Unlock()
	out := s.log
	s.log = nil
	return out
}

type provAPI interface {
	StartProviding(force bool, keys ...mh.Multihash) error
	StopProviding(keys ...mh.Multihash) error
	ProvideOnce(keys ...mh.Multihash) error
	Close() error
}

type spWorld struct {
	a      map[string]string
	router *spRouter
	sender *spSender
	ds     datastore.Batching
	prov   *provider.SweepingProvider
	api    provAPI
	ks     keystore.Keystore
	r      int
	nkeys  int
	I      time.Duration
	delay  time.Duration
	// how long the harness lets an operation work before it looks at what was sent
	wait time.Duration
}

func (w *spWorld) open() {
	var err error
	w.ks, err = keystore.NewKeystore(namespace.Wrap(w.ds, datastore.NewKey("verif-keystore")))
	if err != nil {
		panic(err)
	}
	opts := []provider.Option{
		provider.WithPeerID(w.sender.self), provider.WithRouter(w.router), provider.WithMessageSender(w.sender),
		provider.WithSelfAddrs(func() []ma.Multiaddr { return []ma.Multiaddr{w.sender.addr} }),
		provider.WithReplicationFactor(w.r), provider.WithReprovideInterval(w.I), provider.WithMaxReprovideDelay(w.delay),
		provider.WithKeystore(w.ks), provider.WithDatastore(w.ds), provider.WithOfflineDelay(time.Minute), provider.WithConnectivityCheckOnlineInterval(10 * time.Second),
	}
	switch w.a["workers"] {
	case "1":
		opts = append(opts, provider.WithMaxWorkers(1), provider.WithDedicatedPeriodicWorkers(0), provider.WithDedicatedBurstWorkers(0))
	case "2":
		opts = append(opts, provider.WithMaxWorkers(2), provider.WithDedicatedPeriodicWorkers(1), provider.WithDedicatedBurstWorkers(1))
	case "8":
		opts = append(opts, provider.WithMaxWorkers(8), provider.WithDedicatedPeriodicWorkers(3), provider.WithDedicatedBurstWorkers(3))
	}
	w.prov, err = provider.New(opts...)
	if err != nil {
		panic(err)
	}
	w.api = w.prov
	if w.a["buffered"] == "1" {
		w.api = buffered.New(w.prov, namespace.Wrap(w.ds, datastore.NewKey("verif-buffered")), buffered.WithBatchSize(atoiSP(w.a["batch"], 3)))
	}
	// the provider measures the network (a few lookups) before it accepts work
	time.Sleep(2 * time.Second)
	synctest.Wait()
}

func atoiSP(s string, d int) int {
	n, err := strconv.Atoi(s)
	if err != nil || n <= 0 {
		return d
	}
	return n
}

func spKeys(s string) []mh.Multihash {
	var out []mh.Multihash
	if s == "" || s == "-" {
		return nil
	}
	for _, t := range strings.Split(s, ",") {
		n, _ := strconv.Atoi(t)
		out = append(out, spKey(n))
	}
	return out
}

// observe: what was sent since the last observation, the r nearest peers of every key now, and the keys kept.
func (w *spWorld) observe() string {
	sends := w.sender.take()
	now := time.Now().Unix() - 946684800
	per := map[int]map[int]bool{}
	at := map[int]map[int64]bool{}
	badAddr := 0
	for _, s := range sends {
		if per[s.key] == nil {
			per[s.key] = map[int]bool{}
			at[s.key] = map[int64]bool{}
		}
		per[s.key][s.to] = true
		at[s.key][s.at] = true
		if !s.okAddr {
			badAddr++
		}
	}
	ints := func(m map[int]bool) string {
		var xs []int
		for x := range m {
			xs = append(xs, x)
		}
		sort.Ints(xs)
		var ss []string
		for _, x := range xs {
			ss = append(ss, fmt.Sprint(x))
		}
		return strings.Join(ss, ".")
	}
	var sent, near, times []string
	for k := 0; k < w.nkeys; k++ {
		if len(per[k]) > 0 {
			sent = append(sent, fmt.Sprintf("%d:%s", k, ints(per[k])))
			var ts []int
			for x := range at[k] {
				ts = append(ts, int(x))
			}
			sort.Ints(ts)
			var ss []string
			for _, x := range ts {
				ss = append(ss, fmt.Sprint(x))
			}
			times = append(times, fmt.Sprintf("%d:%s", k, strings.Join(ss, ".")))
		}
		nm := map[int]bool{}
		for _, p := range w.router.nearest(string(spKey(k)), w.r) {
			if !w.sender.fails[spPeerNum(p)] {
				nm[spPeerNum(p)] = true
			}
		}
		near = append(near, fmt.Sprintf("%d:%s", k, ints(nm)))
	}
	hs, _ := w.ks.Get(context.Background(), bitstr.Key(""))
	var kept []int
	for _, h := range hs {
		kept = append(kept, spKeyIDs[string(h)])
	}
	sort.Ints(kept)
	var ks []string
	for _, k := range kept {
		ks = append(ks, fmt.Sprint(k))
	}
	// the reprovide schedule: prefix-free, and (checked by the verdict after a whole window online) covering every kept key.
	// A region is out of the schedule while it is being reprovided (unscheduled, sent, rescheduled): if a kept key is not
	// covered, let the reprovide in flight finish and look again (what is sent meanwhile is left for the next observation).
	sched := w.prov.VerifSchedule()
	if !w.schedCovers(sched, kept) {
		time.Sleep(5 * time.Minute)
		synctest.Wait()
		sched = w.prov.VerifSchedule()
	}
	overlap := 0
	for i, a := range sched {
		for j, b := range sched {
			if i != j && strings.HasPrefix(a, b) {
				overlap = 1
			}
		}
	}
	var uncovered []string
	for _, k := range kept {
		bits := spBits(k)
		cov := false
		for _, p := range sched {
			if strings.HasPrefix(bits, p) {
				cov = true
			}
		}
		if !cov {
			uncovered = append(uncovered, fmt.Sprint(k))
		}
	}
	return fmt.Sprintf("set=[%s] sent=%s near=%s badaddr=%d sched=%d overlap=%d uncovered=[%s] now=%d times=%s", strings.Join(ks, ","), strings.Join(sent, "|"), strings.Join(near, "|"), badAddr,
		len(sched), overlap, strings.Join(uncovered, ","), now, strings.Join(times, "|"))
}

func spBits(k int) string {
	h := sha256.Sum256(spKey(k))
	bits := ""
	for _, by := range h[:4] {
		bits += fmt.Sprintf("%08b", by)
	}
	return bits
}

func (w *spWorld) schedCovers(sched []string, kept []int) bool {
	for _, k := range kept {
		cov := false
		for _, p := range sched {
			if strings.HasPrefix(spBits(k), p) {
				cov = true
			}
		}
		if !cov {
			return false
		}
	}
	return true
}

func runSP(c *vu.Case) {
	a := map[string]string{}
	for _, f := range strings.Fields(c.In[0]) {
		if i := strings.IndexByte(f, '='); i > 0 {
			a[f[:i]] = f[i+1:]
		}
	}
	addr, _ := ma.NewMultiaddr("/ip4/8.8.8.8/tcp/4001")
	w := &spWorld{a: a, router: &spRouter{}, sender: &spSender{self: spPeer(1000000), addr: addr, fails: map[int]bool{}},
		ds: dssync.MutexWrap(datastore.NewMapDatastore())}
	w.r = atoiSP(a["r"], 3)
	w.router.k = w.r
	w.nkeys = atoiSP(a["nkeys"], 6)
	w.sender.latency = time.Duration(atoiSP(a["sendms"], 7)) * time.Millisecond
	w.wait = time.Duration(atoiSP(a["wait"], 1)) * time.Second
	w.I = time.Duration(atoiSP(a["interval"], 3600)) * time.Second
	w.delay = w.I / 12
	setSwarm := func(n int) {
		var ps []peer.ID
		for i := 0; i < n; i++ {
			ps = append(ps, spPeer(i))
		}
		w.router.mu.Lock()
		w.router.swarm = ps
		w.router.mu.Unlock()
	}
	setSwarm(atoiSP(a["swarm"], 8))
	w.open()
	defer func() {
		_ = w.api.Close()
		if w.api != provAPI(w.prov) {
			_ = w.prov.Close()
		}
		_ = w.ks.Close()
		synctest.Wait()
	}()
	c.Out = append(c.Out, w.observe())
	for i := 1; i < len(c.In); i++ {
		f := strings.Fields(c.In[i])
		e := map[string]string{}
		for _, x := range f {
			if j := strings.IndexByte(x, '='); j > 0 {
				e[x[:j]] = x[j+1:]
			}
		}
		switch f[0] {
		case "start":
			_ = w.api.StartProviding(e["force"] == "1", spKeys(e["keys"])...)
			// the buffered wrapper applies it asynchronously; a provide takes a moment of virtual time
			time.Sleep(w.wait)
			synctest.Wait()
		case "stop":
			_ = w.api.StopProviding(spKeys(e["keys"])...)
			time.Sleep(w.wait)
			synctest.Wait()
		case "once":
			_ = w.api.ProvideOnce(spKeys(e["keys"])...)
			time.Sleep(w.wait)
			synctest.Wait()
		case "batch": // several operations handed to the (buffered) provider back to back: ops=s1,x1,S2,o3 …
			for _, t := range strings.Split(e["ops"], ",") {
				n, _ := strconv.Atoi(t[1:])
				switch t[0] {
				case 's':
					_ = w.api.StartProviding(false, spKey(n))
				case 'S':
					_ = w.api.StartProviding(true, spKey(n))
				case 'x':
					_ = w.api.StopProviding(spKey(n))
				case 'o':
					_ = w.api.ProvideOnce(spKey(n))
				}
			}
			time.Sleep(w.wait)
			synctest.Wait()
		case "swarm":
			setSwarm(atoiSP(e["n"], 8))
		case "offline":
			w.router.mu.Lock()
			w.router.offline = true
			w.router.mu.Unlock()
		case "online":
			w.router.mu.Lock()
			w.router.offline = false
			w.router.mu.Unlock()
		case "advance":
			// `cycles` reprovide intervals plus the allowed delay (plus the time the checker needs to notice
			// that connectivity is back)
			n := atoiSP(e["cycles"], 1)
			time.Sleep(time.Duration(n)*w.I + w.delay + 5*time.Minute)
			synctest.Wait()
		case "sleep": // part of an interval passes (not an observation window)
			time.Sleep(time.Duration(atoiSP(e["min"], 10)) * time.Minute)
			synctest.Wait()
		case "restart":
			_ = w.api.Close()
			if w.api != provAPI(w.prov) {
				_ = w.prov.Close()
			}
			_ = w.ks.Close()
			synctest.Wait()
			w.open()
		}
		c.Out = append(c.Out, w.observe())
	}
}

func TestVerifC17(t *testing.T) {
	if os.Getenv("VERIF_DEBUG") != "" {
		_ = logging.SetLogLevel(provider.DefaultLoggerName, "debug")
	}
	vu.Run(t, vu.Config{Prop: "C17", QuickN: 96, ThoroughN: 2400,
		Gen: func(r *vu.RNG, c *vu.Case) bool {
			// Strict scenarios keep two anchor keys (ids 0 and 3: first and last quarter of the keyspace) provided from the
			// start and never stopped, and a swarm well above the replication factor: the schedule then always holds
			// several prefixes. (With a single scheduled prefix the provider arms its timer for exactly one interval and, in
			// virtual time, its handler reads the clock at exactly the deadline; that exact coincidence, which a real clock
			// does not produce, sends it down the "regions whose time passed while the timer ran" path and shifts slots.)
			// families by index: 0-2 general strict, 3 buffered batches, 4 relaxed, 5 growth, 6 shrink, 7 slow network,
			// 8 and 11 restarts, 9 and 10 late starts
			fam := c.Idx % 12
			if fam == 8 || fam == 11 {
				// restarts part-way through a cycle, more than once: the cycle's anchor and every region's slot must survive
				// them (regions of more than two keys, which are reprovided as a batch)
				nk := r.Range(48, 64)
				var all []string
				for i := 0; i < nk; i++ {
					all = append(all, fmt.Sprint(i))
				}
				c.In = append(c.In, fmt.Sprintf("sp nkeys=%d r=%d interval=3600 swarm=%d workers=%s buffered=0 batch=1 strict=1 wait=120", nk, []int{3, 4}[r.Intn(2)], []int{48, 64}[r.Intn(2)], []string{"default", "2", "8"}[r.Intn(3)]))
				c.In = append(c.In, "start keys="+strings.Join(all, ",")+" force=0", "advance cycles=1")
				for i, n := 0, r.Range(3, 6); i < n; i++ {
					c.In = append(c.In, fmt.Sprintf("sleep min=%d", r.Range(2, 55)), "restart")
					if r.Bool() {
						c.In = append(c.In, "advance cycles=1")
					}
				}
				c.In = append(c.In, "advance cycles=1", "advance cycles=1", "advance cycles=1")
				c.Tag("nontrivial")
				c.Tag("restarts")
				return true
			}
			if fam == 9 || fam == 10 {
				// late starts: keys arrive one by one at arbitrary moments of the cycle, under prefixes that are not scheduled
				// yet; the regions already scheduled around them must keep their slots
				// (a small swarm: few, wide regions, so that the slot of a region and the slot of the half of it that holds
				// the keys lie minutes apart; few keys at first, each alone in a region narrowed to the peers around it)
				nk := r.Range(40, 64)
				var first, later []string
				for i := 4; i < nk; i++ {
					if i%8 == 4 {
						first = append(first, fmt.Sprint(i))
					} else {
						later = append(later, fmt.Sprint(i))
					}
				}
				c.In = append(c.In, fmt.Sprintf("sp nkeys=%d r=3 interval=3600 swarm=%d workers=%s buffered=%d batch=1 strict=1 wait=30", nk, []int{16, 20, 24, 32}[r.Intn(4)], []string{"default", "2", "8"}[r.Intn(3)], r.Intn(2)))
				c.In = append(c.In, "start keys=0,3 force=0", "start keys="+strings.Join(first, ",")+" force=0", "advance cycles=1")
				for i, n := 0, r.Range(25, 45); i < n && len(later) > 0; i++ {
					j := r.Intn(len(later))
					c.In = append(c.In, fmt.Sprintf("sleep min=%d", r.Range(1, 12)), fmt.Sprintf("start keys=%s force=%d", later[j], r.Intn(2)))
					later = append(later[:j], later[j+1:]...)
					if r.Chance(1, 8) {
						c.In = append(c.In, "advance cycles=1")
					}
				}
				c.In = append(c.In, "advance cycles=1", "advance cycles=1", "advance cycles=1")
				c.Tag("nontrivial")
				c.Tag("late-starts")
				return true
			}
			if fam == 5 {
				// growth scenario: keys in one quarter, the swarm grows several-fold (regions split), later keys arrive
				// in a quarter that held none, then several cycles
				q1 := 1 + r.Intn(2)
				q2 := 3 - q1
				var a, b []string
				na := r.Range(3, 5)
				for i := 0; i < na; i++ {
					a = append(a, fmt.Sprint(4*i+q1))
				}
				// later keys: all over the keyspace, so that some land in regions that held no key when they were explored
				_ = q2
				used := map[int]bool{0: true, 3: true}
				for i := 0; i < na; i++ {
					used[4*i+q1] = true
				}
				for len(b) < 12 {
					k := r.Intn(48)
					if !used[k] {
						used[k] = true
						b = append(b, fmt.Sprint(k))
					}
				}
				c.In = append(c.In, fmt.Sprintf("sp nkeys=48 r=%d interval=3600 swarm=%d workers=%s buffered=0 batch=1 strict=1", []int{3, 4}[r.Intn(2)], []int{12, 16}[r.Intn(2)], []string{"default", "2", "8"}[r.Intn(3)]))
				c.In = append(c.In, "start keys=0,3 force=0")
				c.In = append(c.In, "start keys="+strings.Join(a, ",")+" force=0", "advance cycles=1",
					fmt.Sprintf("swarm n=%d", []int{32, 48, 64}[r.Intn(3)]), "advance cycles=1", "advance cycles=1",
					"start keys="+strings.Join(b, ",")+" force=0", "advance cycles=1", "advance cycles=1", "advance cycles=1")
				c.Tag("nontrivial")
				c.Tag("growth")
				return true
			}
			if fam == 6 {
				// shrink scenario: many keys, the swarm shrinks several-fold so that scheduled regions no longer hold r peers
				// and merge into their parents, then several cycles
				rf := []int{3, 4}[r.Intn(2)]
				nk := r.Range(24, 40)
				var all []string
				for i := 0; i < nk; i++ {
					all = append(all, fmt.Sprint(i))
				}
				c.In = append(c.In, fmt.Sprintf("sp nkeys=%d r=%d interval=3600 swarm=%d workers=%s buffered=0 batch=1 strict=1 wait=120", nk, rf, []int{48, 64}[r.Intn(2)], []string{"default", "2", "8"}[r.Intn(3)]))
				c.In = append(c.In, "start keys="+strings.Join(all, ",")+" force=0", "advance cycles=1", "advance cycles=1",
					fmt.Sprintf("swarm n=%d", []int{12, 16, 20}[r.Intn(3)]), "advance cycles=1", "advance cycles=1", "advance cycles=1")
				c.Tag("nontrivial")
				c.Tag("shrink")
				return true
			}
			if fam == 7 {
				// slow network: every ADD_PROVIDER takes more than a second and a peer is handed many keys
				rf := []int{2, 3}[r.Intn(2)]
				nk := r.Range(12, 20)
				var all, some []string
				for i := 0; i < nk; i++ {
					if i%3 == 2 {
						some = append(some, fmt.Sprint(i))
					} else {
						all = append(all, fmt.Sprint(i))
					}
				}
				c.In = append(c.In, fmt.Sprintf("sp nkeys=%d r=%d interval=3600 swarm=%d workers=%s buffered=0 batch=1 strict=0 sendms=%d wait=300", nk, rf, []int{4, 5, 6}[r.Intn(3)], []string{"default", "2", "8"}[r.Intn(3)], []int{1100, 1500, 2500}[r.Intn(3)]))
				c.In = append(c.In, "start keys="+strings.Join(all, ",")+" force=0", "once keys="+strings.Join(some, ","), "advance cycles=1", "advance cycles=1")
				c.Tag("nontrivial")
				c.Tag("slow-network")
				return true
			}
			if fam == 3 {
				// the buffered wrapper: every order of start / stop / provide-once on one or two kept keys inside one batch
				c.In = append(c.In, fmt.Sprintf("sp nkeys=8 r=%d interval=3600 swarm=%d workers=%s buffered=1 batch=8 strict=1", []int{3, 4}[r.Intn(2)], []int{16, 24}[r.Intn(2)], []string{"default", "2"}[r.Intn(2)]))
				c.In = append(c.In, "start keys=0,3 force=0", "start keys=1,2,5 force=0", "advance cycles=1")
				for b := 0; b < r.Range(5, 8); b++ {
					k1, k2 := []int{1, 2, 5, 6}[r.Intn(4)], []int{1, 2, 5, 6}[r.Intn(4)]
					var ops []string
					if r.Bool() {
						// the short patterns whose members have to meet in one batch to matter (how many operations the
						// wrapper's worker finds queued when it wakes is up to the scheduler): a kept key stopped and then
						// provided once, started and stopped, stopped and started …
						c.In = append(c.In, fmt.Sprintf("start keys=%d,%d force=0", k1, k2))
						pats := [][]string{{"x", "o"}, {"x", "o", "x"}, {"s", "x"}, {"x", "s"}, {"o", "x"}, {"x", "S"}, {"x", "o", "o"}}
						for rep := 0; rep < r.Range(1, 3); rep++ {
							k := []int{k1, k2}[r.Intn(2)]
							for _, o := range pats[r.Intn(len(pats))] {
								ops = append(ops, fmt.Sprintf("%s%d", o, k))
							}
						}
					} else {
						for j := 0; j < r.Range(2, 6); j++ {
							ops = append(ops, fmt.Sprintf("%c%d", "sSxoxo"[r.Intn(6)], []int{k1, k1, k2}[r.Intn(3)]))
						}
					}
					c.In = append(c.In, "batch ops="+strings.Join(ops, ","))
					if r.Bool() {
						c.In = append(c.In, "advance cycles=1")
					}
				}
				c.In = append(c.In, "advance cycles=1", "advance cycles=1")
				c.Tag("nontrivial")
				c.Tag("buffered-batches")
				return true
			}
			strict := fam != 4
			nkeys := r.Range(3, 8)
			sizes := []int{3, 4, 5, 6, 10, 12, 16, 24, 32, 48}
			rf := []int{2, 3, 4}[r.Intn(3)]
			if strict {
				nkeys = r.Range(6, 12)
				sizes = []int{16, 24, 32, 48, 64}
				// (not 2: with lookups that return two peers the exploration's give-up heuristic misfires, known finding F22)
				rf = []int{3, 4}[r.Intn(2)]
			}
			st := 0
			if strict {
				st = 1
				c.Tag("strict")
			} else {
				c.Tag("relaxed")
			}
			c.In = append(c.In, fmt.Sprintf("sp nkeys=%d r=%d interval=3600 swarm=%d workers=%s buffered=%d batch=%d strict=%d", nkeys, rf,
				sizes[r.Intn(len(sizes))], []string{"default", "1", "2", "8"}[r.Intn(4)], r.Intn(2), []int{1, 2, 3, 4, 8, 8}[r.Intn(6)], st))
			if strict {
				c.In = append(c.In, "start keys=0,3 force=0")
			}
			id := func() int {
				for {
					k := r.Intn(nkeys)
					if !strict || (k != 0 && k != 3) {
						return k
					}
				}
			}
			ids := func() string {
				var ss []string
				for i := 0; i < r.Range(1, 3); i++ {
					ss = append(ss, fmt.Sprint(id()))
				}
				return strings.Join(ss, ",")
			}
			steps := r.Range(5, 14)
			for i := 0; i < steps; i++ {
				switch x := r.Intn(20); {
				case x < 4:
					c.In = append(c.In, fmt.Sprintf("start keys=%s force=%d", ids(), r.Intn(2)))
				case x < 6:
					c.In = append(c.In, "stop keys="+ids())
				case x < 7:
					c.In = append(c.In, "once keys="+ids())
				case x < 9:
					var ops []string
					if r.Bool() {
						// dense: many operations on two keys, so that every order of start / stop / provide-once on one key
						// meets inside one batch of the buffered wrapper
						k1, k2 := id(), id()
						for j := 0; j < r.Range(3, 8); j++ {
							ops = append(ops, fmt.Sprintf("%c%d", "sSxoxo"[r.Intn(6)], []int{k1, k1, k2}[r.Intn(3)]))
						}
					} else {
						for j := 0; j < r.Range(2, 6); j++ {
							ops = append(ops, fmt.Sprintf("%c%d", "sSxo"[r.Intn(4)], id()))
						}
					}
					c.In = append(c.In, "batch ops="+strings.Join(ops, ","))
				case x < 11:
					c.In = append(c.In, fmt.Sprintf("swarm n=%d", sizes[r.Intn(len(sizes))]))
				case x < 12:
					c.In = append(c.In, "offline")
					c.In = append(c.In, fmt.Sprintf("advance cycles=%d", r.Range(1, 2)))
					if r.Chance(1, 2) {
						c.In = append(c.In, fmt.Sprintf("start keys=%s force=0", ids()))
					}
					c.In = append(c.In, "online")
					c.In = append(c.In, "advance cycles=1")
				case x < 13:
					if r.Bool() {
						c.In = append(c.In, fmt.Sprintf("sleep min=%d", r.Range(5, 50)))
					}
					c.In = append(c.In, "restart")
				default:
					c.In = append(c.In, fmt.Sprintf("advance cycles=%d", r.Range(1, 2)))
				}
			}
			c.In = append(c.In, "advance cycles=1")
			c.In = append(c.In, "advance cycles=1")
			c.Tag("nontrivial")
			return true
		}, Exec: func(c *vu.Case) {
			func() {
				defer func() {
					if r := recover(); r != nil {
						for len(c.Out) < len(c.In) {
							c.Out = append(c.Out, "-")
						}
						c.Out[len(c.Out)-1] += " |BUBBLE:" + strings.ReplaceAll(fmt.Sprint(r), " ", "_")
					}
				}()
				synctest.Test(c.T, func(t *testing.T) { runSP(c) })
			}()
		}})
}

// ---------------------------------------------------------------------------------------------
// C14 (sibling): Close of the sweeping provider (and of the buffered wrapper) in the middle of its work

type hangSender struct {
	spSender
	hang bool
}

func (s *hangSender) SendMessage(ctx context.Context, p peer.ID, m *pb.Message) error {
	if s.hang {
		<-ctx.Done()
		return ctx.Err()
	}
	return s.spSender.SendMessage(ctx, p, m)
}

func runC14p(c *vu.Case) {
	a := map[string]string{}
	for _, f := range strings.Fields(c.In[0]) {
		if i := strings.IndexByte(f, '='); i > 0 {
			a[f[:i]] = f[i+1:]
		}
	}
	addr, _ := ma.NewMultiaddr("/ip4/8.8.8.8/tcp/4001")
	hs := &hangSender{spSender: spSender{self: spPeer(1000000), addr: addr, fails: map[int]bool{}}}
	router := &spRouter{k: 3}
	for i := 0; i < 12; i++ {
		router.swarm = append(router.swarm, spPeer(i))
	}
	ds := dssync.MutexWrap(datastore.NewMapDatastore())
	ks, err := keystore.NewKeystore(namespace.Wrap(ds, datastore.NewKey("verif-keystore")))
	if err != nil {
		panic(err)
	}
	popts := []provider.Option{provider.WithPeerID(hs.self), provider.WithRouter(router), provider.WithMessageSender(hs),
		provider.WithSelfAddrs(func() []ma.Multiaddr { return []ma.Multiaddr{addr} }), provider.WithReplicationFactor(3),
		provider.WithReprovideInterval(time.Hour), provider.WithKeystore(ks), provider.WithDatastore(ds)}
	if n := atoiSP(a["conns"], 0); n > 0 {
		// few connections per worker: a region's records go to more peers than can be in flight or queued at once
		popts = append(popts, provider.WithMaxProvideConnsPerWorker(n))
	}
	prov, err := provider.New(popts...)
	if err != nil {
		panic(err)
	}
	var api provAPI = prov
	if a["buffered"] == "1" {
		api = buffered.New(prov, namespace.Wrap(ds, datastore.NewKey("verif-buffered")))
	}
	synctest.Wait()
	_ = api.StartProviding(false, spKey(0), spKey(1), spKey(2), spKey(5))
	time.Sleep(time.Second)
	synctest.Wait()
	switch a["when"] {
	case "midcycle":
		time.Sleep(20 * time.Minute)
	case "sending":
		hs.hang = true
		_ = api.StartProviding(true, spKey(3), spKey(6))
		time.Sleep(time.Second)
	case "sendingmany":
		// many keys at once: every region's records go to a good part of the swarm
		hs.hang = true
		var ks []mh.Multihash
		for i := 8; i < 40; i++ {
			ks = append(ks, spKey(i))
		}
		_ = api.StartProviding(true, ks...)
		time.Sleep(time.Second)
	case "offline":
		router.mu.Lock()
		router.offline = true
		router.mu.Unlock()
		_ = api.StartProviding(true, spKey(3))
		time.Sleep(90 * time.Second)
	}
	synctest.Wait()
	closed := make(chan struct{}, 2)
	n := 1
	if a["twice"] == "1" {
		n = 2
	}
	for i := 0; i < n; i++ {
		go func() { _ = api.Close(); closed <- struct{}{} }()
	}
	synctest.Wait()
	time.Sleep(2 * time.Minute)
	synctest.Wait()
	nclosed := 0
	for {
		select {
		case <-closed:
			nclosed++
			continue
		default:
		}
		break
	}
	err2 := api.Close()
	_ = prov.Close()
	// operations after Close are refused, not stuck
	_ = api.StartProviding(false, spKey(7))
	_ = ks.Close()
	synctest.Wait()
	c.Out = append(c.Out, fmt.Sprintf("returned=1/1 closed=%d/%d again=%v", nclosed, n, err2 == nil))
}

func TestVerifC14p(t *testing.T) {
	vu.Run(t, vu.Config{Prop: "C14p", QuickN: 48, ThoroughN: 1000,
		Gen: func(r *vu.RNG, c *vu.Case) bool {
			c.In = append(c.In, fmt.Sprintf("life buffered=%d when=%s twice=%d conns=%d", r.Intn(2), []string{"idle", "midcycle", "sending", "offline", "sendingmany", "sendingmany"}[r.Intn(6)], r.Intn(2), []int{0, 1, 2}[r.Intn(3)]))
			c.Tag("nontrivial")
			return true
		}, Exec: func(c *vu.Case) {
			func() {
				defer func() {
					if r := recover(); r != nil {
						for len(c.Out) < len(c.In) {
							c.Out = append(c.Out, "-")
						}
						c.Out[len(c.Out)-1] += " |BUBBLE:" + strings.ReplaceAll(fmt.Sprint(r), " ", "_")
					}
				}()
				synctest.Test(c.T, func(t *testing.T) { runC14p(c) })
			}()
		}})
}

//go:build verif

package keystore

import (
	"runtime"
	"context"
	"crypto/sha256"
	"errors"
	"fmt"
	"sort"
	"strconv"
	"strings"
	"sync"
	"testing"
	"testing/synctest"
	"time"

	"github.com/ipfs/go-cid"
	ds "github.com/ipfs/go-datastore"
	dsq "github.com/ipfs/go-datastore/query"
	"github.com/ipfs/go-libdht/kad/key/bitstr"
	mh "github.com/multiformats/go-multihash"

	vu "github.com/libp2p/go-libp2p-kad-dht/internal/verifutil"
)

// ---------------------------------------------------------------------------------------------
// journal: every mutation of every physical datastore, in order, with the syncs

type jentry struct {
	store string
	kind  string // put | del | sync | destroy
	key   string
	val   []byte
	group int // writes of one batch commit share a group (a commit is atomic)
}

type journal struct {
	mu      sync.Mutex
	entries []jentry
	groups  int
	// counters and faults
	resetOps   int         // datastore calls made under the reset's context so far
	failReset  int         // the failReset-th such call fails (0: none)
	hangReset  int         // the hangReset-th such call blocks until its context ends (a slow datastore that honours ctx)
	gates      map[int]func() // called before the n-th reset call
	failPlain  int         // the failPlain-th call not under the reset context fails (0: none); counted from armPlain
	plainOps   int
	plainGate  func() // called once, before the first call not under the reset context after it was set
}

var errInjected = errors.New("injected datastore error")

type resetCtxKey struct{}

func (j *journal) tick(ctx context.Context) error {
	j.mu.Lock()
	if ctx != nil && ctx.Value(resetCtxKey{}) != nil {
		j.resetOps++
		n := j.resetOps
		g := j.gates[n]
		fail := j.failReset == n
		hang := j.hangReset == n
		j.mu.Unlock()
		if g != nil {
			g()
		}
		if hang {
			<-ctx.Done()
			return ctx.Err()
		}
		if fail {
			return errInjected
		}
		return nil
	}
	j.plainOps++
	fail := j.failPlain != 0 && j.failPlain == j.plainOps
	pg := j.plainGate
	j.plainGate = nil
	j.mu.Unlock()
	if pg != nil {
		pg()
	}
	if fail {
		return errInjected
	}
	return nil
}

// jds: one physical datastore writing through to the journal
type jds struct {
	j    *journal
	name string
	mu   sync.Mutex
	m    map[string][]byte
}

func newJDS(j *journal, name string) *jds { return &jds{j: j, name: name, m: map[string][]byte{}} }

func (d *jds) Get(ctx context.Context, k ds.Key) ([]byte, error) {
	if err := d.j.tick(ctx); err != nil {
		return nil, err
	}
	d.mu.Lock()
	defer d.mu.Unlock()
	v, ok := d.m[k.String()]
	if !ok {
		return nil, ds.ErrNotFound
	}
	return append([]byte(nil), v...), nil
}
func (d *jds) Has(ctx context.Context, k ds.Key) (bool, error) {
	if err := d.j.tick(ctx); err != nil {
		return false, err
	}
	d.mu.Lock()
	defer d.mu.Unlock()
	_, ok := d.m[k.String()]
	return ok, nil
}
func (d *jds) GetSize(ctx context.Context, k ds.Key) (int, error) {
	v, err := d.Get(ctx, k)
	return len(v), err
}
func (d *jds) Query(ctx context.Context, q dsq.Query) (dsq.Results, error) {
	if err := d.j.tick(ctx); err != nil {
		return nil, err
	}
	d.mu.Lock()
	var es []dsq.Entry
	for k, v := range d.m {
		if strings.HasPrefix(k, q.Prefix) || q.Prefix == "" || q.Prefix == "/" {
			e := dsq.Entry{Key: k, Size: len(v)}
			if !q.KeysOnly {
				e.Value = append([]byte(nil), v...)
			}
			es = append(es, e)
		}
	}
	d.mu.Unlock()
	sort.Slice(es, func(a, b int) bool { return es[a].Key < es[b].Key })
	// the prefix of a query is a key prefix: "/0/1" must not match "/0/10…" — component-wise
	var out []dsq.Entry
	p := strings.TrimSuffix(q.Prefix, "/")
	for _, e := range es {
		if p == "" || e.Key == p || strings.HasPrefix(e.Key, p+"/") {
			out = append(out, e)
		}
	}
	if q.Limit > 0 && len(out) > q.Limit {
		out = out[:q.Limit]
	}
	return dsq.ResultsWithEntries(q, out), nil
}
func (d *jds) apply(kind, key string, val []byte, group int) {
	d.mu.Lock()
	if kind == "put" {
		d.m[key] = append([]byte(nil), val...)
	} else {
		delete(d.m, key)
	}
	d.mu.Unlock()
	d.j.mu.Lock()
	d.j.entries = append(d.j.entries, jentry{store: d.name, kind: kind, key: key, val: append([]byte(nil), val...), group: group})
	d.j.mu.Unlock()
}
func (d *jds) newGroup() int {
	d.j.mu.Lock()
	defer d.j.mu.Unlock()
	d.j.groups++
	return d.j.groups
}
func (d *jds) Put(ctx context.Context, k ds.Key, v []byte) error {
	if err := d.j.tick(ctx); err != nil {
		return err
	}
	d.apply("put", k.String(), v, d.newGroup())
	return nil
}
func (d *jds) Delete(ctx context.Context, k ds.Key) error {
	if err := d.j.tick(ctx); err != nil {
		return err
	}
	d.apply("del", k.String(), nil, d.newGroup())
	return nil
}
func (d *jds) Sync(ctx context.Context, prefix ds.Key) error {
	if err := d.j.tick(ctx); err != nil {
		return err
	}
	d.j.mu.Lock()
	d.j.entries = append(d.j.entries, jentry{store: d.name, kind: "sync", key: prefix.String()})
	d.j.mu.Unlock()
	return nil
}
func (d *jds) Close() error { return nil }

type jbatch struct {
	d   *jds
	ops []jentry
}

func (d *jds) Batch(ctx context.Context) (ds.Batch, error) {
	if err := d.j.tick(ctx); err != nil {
		return nil, err
	}
	return &jbatch{d: d}, nil
}
func (b *jbatch) Put(ctx context.Context, k ds.Key, v []byte) error {
	b.ops = append(b.ops, jentry{kind: "put", key: k.String(), val: append([]byte(nil), v...)})
	return nil
}
func (b *jbatch) Delete(ctx context.Context, k ds.Key) error {
	b.ops = append(b.ops, jentry{kind: "del", key: k.String()})
	return nil
}
func (b *jbatch) Commit(ctx context.Context) error {
	if err := b.d.j.tick(ctx); err != nil {
		return err
	}
	g := b.d.newGroup()
	for _, o := range b.ops {
		b.d.apply(o.kind, o.key, o.val, g)
	}
	b.ops = nil
	return nil
}

// recoverStores rebuilds every physical datastore from the journal cut at `cut`. dropUnsynced: writes not covered by
// a later sync (same store, sync prefix a prefix of the key) before the cut are lost as well. A batch commit that
// straddles the cut is lost entirely.
func recoverStores(j *journal, cut int, dropUnsynced bool) map[string]*jds {
	out := map[string]*jds{}
	get := func(name string) *jds {
		if out[name] == nil {
			out[name] = newJDS(&journal{gates: map[int]func(){}}, name)
		}
		return out[name]
	}
	es := j.entries[:cut]
	// the group straddling the cut
	torn := -1
	if cut < len(j.entries) && cut > 0 && j.entries[cut].group == j.entries[cut-1].group && j.entries[cut].group != 0 {
		torn = j.entries[cut].group
	}
	for i, e := range es {
		switch e.kind {
		case "sync":
			continue
		case "destroy":
			delete(out, e.store)
			continue
		}
		if e.group == torn {
			continue
		}
		if dropUnsynced {
			covered := false
			for _, s := range es[i+1:] {
				if s.kind == "sync" && s.store == e.store && (s.key == "/" || strings.HasPrefix(e.key, s.key)) {
					covered = true
					break
				}
			}
			if !covered {
				continue
			}
		}
		d := get(e.store)
		if e.kind == "put" {
			d.m[e.key] = e.val
		} else {
			delete(d.m, e.key)
		}
	}
	return out
}

// ---------------------------------------------------------------------------------------------

// The key pool is built so that datastore buckets are shared: ids 0-3 have the same first 16 bits of kademlia
// identifier (one bucket for prefixBits 8 and 16) and differ within the next 4, ids 4-7 share their first 8 bits only,
// the rest are unrelated. Queries for prefixes longer than prefixBits then have to post-filter a bucket that holds
// matching and non-matching keys.
var ksNonce = func() [16]int {
	var out [16]int
	sum := func(n int) [32]byte {
		h, _ := mh.Sum([]byte(fmt.Sprintf("verif-ks-%d", n)), mh.SHA2_256, -1)
		return sha256.Sum256(h)
	}
	n := 0
	next := func(ok func(s [32]byte) bool) int {
		for {
			n++
			if ok(sum(n)) {
				return n
			}
		}
	}
	out[0] = next(func(s [32]byte) bool { return true })
	a := sum(out[0])
	for i := 1; i < 4; i++ {
		i := i
		out[i] = next(func(s [32]byte) bool {
			if s[0] != a[0] || s[1] != a[1] {
				return false
			}
			for j := 0; j < i; j++ {
				if sum(out[j])[2]>>4 == s[2]>>4 {
					return false
				}
			}
			return true
		})
	}
	out[4] = next(func(s [32]byte) bool { return s[0] != a[0] })
	b := sum(out[4])
	for i := 5; i < 8; i++ {
		i := i
		out[i] = next(func(s [32]byte) bool {
			if s[0] != b[0] {
				return false
			}
			for j := 4; j < i; j++ {
				if sum(out[j])[1] == s[1] {
					return false
				}
			}
			return true
		})
	}
	for i := 8; i < 16; i++ {
		out[i] = next(func(s [32]byte) bool { return s[0] != a[0] && s[0] != b[0] })
	}
	return out
}()

func ksMH(id int) mh.Multihash {
	h, _ := mh.Sum([]byte(fmt.Sprintf("verif-ks-%d", ksNonce[id%16])), mh.SHA2_256, -1)
	return h
}

func ksBits(id int) string {
	s := sha256.Sum256(ksMH(id))
	return fmt.Sprintf("%08b%08b%08b", s[0], s[1], s[2])
}

var ksIDs = func() map[string]int {
	m := map[string]int{}
	for i := 0; i < 16; i++ {
		m[string(ksMH(i))] = i
	}
	return m
}()

func ksList(hs []mh.Multihash, sorted bool) string {
	var ids []int
	for _, h := range hs {
		ids = append(ids, ksIDs[string(h)])
	}
	if sorted {
		sort.Ints(ids)
	}
	var ss []string
	for _, i := range ids {
		ss = append(ss, fmt.Sprint(i))
	}
	return "[" + strings.Join(ss, ",") + "]"
}

func ksParse(s string) []mh.Multihash {
	var out []mh.Multihash
	if s == "" || s == "-" {
		return nil
	}
	for _, t := range strings.Split(s, ",") {
		n, _ := strconv.Atoi(t)
		out = append(out, ksMH(n))
	}
	return out
}

func ksErr(err error) string {
	switch {
	case err == nil:
		return "nil"
	case errors.Is(err, errInjected):
		return "injected"
	case errors.Is(err, context.Canceled):
		return "canceled"
	case errors.Is(err, ErrClosed):
		return "closed"
	}
	return "error"
}

type ksWorld struct {
	mode       string
	prefixBits int
	batch      int
	bufcap     int
	j          *journal
	stores     map[string]*jds
	ks         Keystore
	rks        *ResettableKeystore
}

func (w *ksWorld) store(name string) *jds {
	if w.stores[name] == nil {
		w.stores[name] = newJDS(w.j, name)
	}
	w.stores[name].j = w.j
	return w.stores[name]
}

func (w *ksWorld) open() error {
	opts := []Option{WithPrefixBits(w.prefixBits), WithBatchSize(w.batch)}
	switch w.mode {
	case "plain":
		ks, err := NewKeystore(w.store("meta"), opts...)
		w.ks = ks
		return err
	case "shared":
		r, err := NewResettableKeystore(w.store("meta"), KeystoreOption(opts...), WithResetBufferCapacity(w.bufcap))
		w.ks, w.rks = r, r
		return err
	default:
		create := func(s string) (ds.Batching, error) { return w.store("slot" + s), nil }
		destroy := func(s string) error {
			w.j.mu.Lock()
			w.j.entries = append(w.j.entries, jentry{store: "slot" + s, kind: "destroy"})
			w.j.mu.Unlock()
			delete(w.stores, "slot"+s)
			return nil
		}
		r, err := NewResettableKeystore(w.store("meta"), KeystoreOption(opts...), WithResetBufferCapacity(w.bufcap), WithDatastoreFactory(create, destroy))
		w.ks, w.rks = r, r
		return err
	}
}

func (w *ksWorld) contents() string {
	ctx := context.Background()
	hs, err := w.ks.Get(ctx, bitstr.Key(""))
	n, _ := w.ks.Size(ctx)
	if err != nil {
		return "set=err size=" + fmt.Sprint(n)
	}
	return fmt.Sprintf("set=%s size=%d", ksList(hs, true), n)
}

func runKS(c *vu.Case) {
	a := map[string]string{}
	for _, f := range strings.Fields(c.In[0]) {
		if i := strings.IndexByte(f, '='); i > 0 {
			a[f[:i]] = f[i+1:]
		}
	}
	w := &ksWorld{mode: a["mode"], j: &journal{gates: map[int]func(){}}, stores: map[string]*jds{}}
	w.prefixBits, _ = strconv.Atoi(a["prefixbits"])
	w.batch, _ = strconv.Atoi(a["batch"])
	w.bufcap, _ = strconv.Atoi(a["bufcap"])
	if err := w.open(); err != nil {
		panic(err)
	}
	synctest.Wait() // the worker has loaded the size
	// the kademlia identifiers are inputs of the model
	var bits []string
	for i := 0; i < 16; i++ {
		bits = append(bits, fmt.Sprintf("%d:%s", i, ksBits(i)))
	}
	f0 := strings.Fields(c.In[0])
	var keep []string
	for _, x := range f0 {
		if !strings.HasPrefix(x, "bits=") {
			keep = append(keep, x)
		}
	}
	c.In[0] = strings.Join(keep, " ") + " bits=" + strings.Join(bits, ",")
	c.Out = append(c.Out, "-")
	ctx := context.Background()
	for i := 1; i < len(c.In); i++ {
		f := strings.Fields(c.In[i])
		e := map[string]string{}
		for _, x := range f {
			if j := strings.IndexByte(x, '='); j > 0 {
				e[x[:j]] = x[j+1:]
			}
		}
		out := "-"
		armFail := func() {
			w.j.mu.Lock()
			w.j.plainOps = 0
			w.j.failPlain, _ = strconv.Atoi(e["fail"])
			w.j.mu.Unlock()
		}
		disarm := func() { w.j.mu.Lock(); w.j.failPlain = 0; w.j.mu.Unlock() }
		switch f[0] {
		case "put":
			armFail()
			nk, err := w.ks.Put(ctx, ksParse(e["keys"])...)
			disarm()
			out = fmt.Sprintf("new=%s err=%s", ksList(nk, false), ksErr(err))
		case "putclose":
			// Close — twice, concurrently — while a Put is inside its first datastore call on the worker: both Closes
			// return (the first waits for the operation in flight), nothing panics, the Put is acknowledged or refused
			// but never half done; then the keystore is reopened
			closes := make(chan struct{}, 2)
			w.j.mu.Lock()
			w.j.plainOps = 0
			w.j.failPlain = 0
			w.j.plainGate = func() {
				for k := 0; k < 2; k++ {
					go func() { _ = w.ks.Close(); closes <- struct{}{} }()
				}
				// (no synctest.Wait here: a Close that waits for another one inside a sync.Once is parked on a mutex,
				// which a bubble does not count as blocked; the callers just get a chance to start)
				for k := 0; k < 20; k++ {
					runtime.Gosched()
				}
			}
			w.j.mu.Unlock()
			nk, err := w.ks.Put(ctx, ksParse(e["keys"])...)
			synctest.Wait()
			nclosed := len(closes)
			w.j.mu.Lock()
			w.j.plainGate = nil
			w.j.mu.Unlock()
			_ = w.ks.Close()
			if err := w.open(); err != nil {
				panic(err)
			}
			synctest.Wait()
			out = fmt.Sprintf("new=%s err=%s closes=%d %s", ksList(nk, false), ksErr(err), nclosed, w.contents())
		case "del":
			armFail()
			err := w.ks.Delete(ctx, ksParse(e["keys"])...)
			disarm()
			out = "err=" + ksErr(err)
		case "get":
			hs, err := w.ks.Get(ctx, bitstr.Key(strings.TrimPrefix(e["p"], "_")))
			out = fmt.Sprintf("keys=%s err=%s", ksList(hs, true), ksErr(err))
		case "count":
			lim, _ := strconv.Atoi(e["limit"])
			n, err := w.ks.CountKeysUpTo(ctx, bitstr.Key(strings.TrimPrefix(e["p"], "_")), lim)
			out = fmt.Sprintf("n=%d err=%s", n, ksErr(err))
		case "has":
			b, err := w.ks.ContainsPrefix(ctx, bitstr.Key(strings.TrimPrefix(e["p"], "_")))
			out = fmt.Sprintf("found=%v err=%s", b, ksErr(err))
		case "empty":
			armFail()
			err := w.ks.Empty(ctx)
			disarm()
			out = "err=" + ksErr(err)
		case "size":
			out = w.contents()
		case "restart":
			_ = w.ks.Close()
			if err := w.open(); err != nil {
				panic(err)
			}
			synctest.Wait()
			out = w.contents()
		case "crash":
			// the process dies now: reopen on what survived
			cut := atoiDef(e["cut"], len(w.j.entries))
			_ = w.ks.Close() // only to stop the goroutines; what Close wrote is cut off
			w.reopenAt(cut, e["drop"] == "1")
			out = w.contents()
		case "reset":
			out = w.reset(c, i, e)
		}
		c.Out = append(c.Out, out)
	}
	_ = w.ks.Close()
	synctest.Wait()
}

func atoiDef(s string, d int) int {
	if s == "" {
		return d
	}
	n, err := strconv.Atoi(s)
	if err != nil {
		return d
	}
	return n
}

// reopenAt replaces the world by one recovered from the journal cut at `cut`.
func (w *ksWorld) reopenAt(cut int, drop bool) {
	if cut > len(w.j.entries) {
		cut = len(w.j.entries)
	}
	stores := recoverStores(w.j, cut, drop)
	nj := &journal{gates: map[int]func(){}}
	// the new journal starts with what survived
	w.j = nj
	w.stores = map[string]*jds{}
	for name, d := range stores {
		nd := newJDS(nj, name)
		for k, v := range d.m {
			nd.apply("put", k, v, nd.newGroup())
		}
		nd.j.mu.Lock()
		nd.j.entries = append(nd.j.entries, jentry{store: name, kind: "sync", key: "/"})
		nd.j.mu.Unlock()
		w.stores[name] = nd
	}
	if err := w.open(); err != nil {
		panic(err)
	}
	synctest.Wait()
}

// reset: reset keys=<ids> puts=<gate>:<ids>;<gate>:<ids> failat=<n> cancelat=<n> closeat=<n> scan=<k>
// A put entry is issued when the reset goroutine is about to make its <gate>-th datastore call.
func (w *ksWorld) reset(c *vu.Case, line int, e map[string]string) string {
	if w.rks == nil {
		return "unsupported"
	}
	before := w.contents()
	w.j.mu.Lock()
	w.j.resetOps = 0
	w.j.failReset, _ = strconv.Atoi(e["failat"])
	w.j.hangReset, _ = strconv.Atoi(e["hangat"])
	w.j.gates = map[int]func(){}
	startIdx := len(w.j.entries)
	w.j.mu.Unlock()
	ctx, cancel := context.WithCancel(context.WithValue(context.Background(), resetCtxKey{}, true))
	defer cancel()
	type putRec struct {
		keys           string
		issued, acked  int
		newKeys        string
		err            string
	}
	var pmu sync.Mutex
	var puts []*putRec
	var wg sync.WaitGroup
	if e["puts"] != "" && e["puts"] != "-" {
		for _, t := range strings.Split(e["puts"], ";") {
			x := strings.SplitN(t, ":", 2)
			g, _ := strconv.Atoi(x[0])
			keys := x[1]
			prevGate := w.j.gates[g]
			w.j.gates[g] = func() {
				if prevGate != nil {
					prevGate()
				}
				pr := &putRec{keys: keys, acked: -1}
				pmu.Lock()
				puts = append(puts, pr)
				w.j.mu.Lock()
				pr.issued = len(w.j.entries)
				w.j.mu.Unlock()
				pmu.Unlock()
				wg.Add(1)
				go func() {
					defer wg.Done()
					nk, err := w.ks.Put(context.Background(), ksParse(keys)...)
					pmu.Lock()
					pr.newKeys, pr.err = ksList(nk, false), ksErr(err)
					if err == nil {
						w.j.mu.Lock()
						pr.acked = len(w.j.entries)
						w.j.mu.Unlock()
					}
					pmu.Unlock()
				}()
				synctest.Wait() // the put has been acknowledged, or is parked behind the reset
			}
		}
	}
	if n, _ := strconv.Atoi(e["cancelat"]); n > 0 {
		prev := w.j.gates[n]
		w.j.gates[n] = func() {
			if prev != nil {
				prev()
			}
			cancel()
		}
	}
	closed := false
	if n, _ := strconv.Atoi(e["closeat"]); n > 0 {
		prev := w.j.gates[n]
		w.j.gates[n] = func() {
			if prev != nil {
				prev()
			}
			closed = true
			go func() { _ = w.ks.Close() }()
			synctest.Wait()
		}
	}
	ch := make(chan cid.Cid)
	go func() {
		defer close(ch)
		for _, h := range ksParse(e["keys"]) {
			select {
			case ch <- cid.NewCidV1(cid.Raw, h):
			case <-ctx.Done():
				return
			}
		}
	}()
	err := w.rks.ResetCids(ctx, ch)
	cancel()
	wg.Wait()
	synctest.Wait()
	w.j.mu.Lock()
	retIdx := len(w.j.entries)
	w.j.failReset = 0
	w.j.hangReset = 0
	w.j.gates = map[int]func(){}
	nops := w.j.resetOps
	w.j.mu.Unlock()
	if closed {
		_ = w.ks.Close()
		synctest.Wait()
	}
	// the concrete put history becomes part of the case
	var ps []string
	for _, p := range puts {
		ps = append(ps, fmt.Sprintf("%s@%d/%d/%s/%s", p.keys, p.issued, p.acked, p.err, strings.Trim(p.newKeys, "[]")))
	}
	after := "closed"
	if !closed {
		after = w.contents()
	}
	// crash scan: reopen on cuts of this reset's stretch of the journal
	var scans []string
	nscan := atoiDef(e["scan"], 0)
	if nscan > 0 {
		full := w.j
		fullStores := w.stores
		endIdx := len(full.entries)
		var cuts []int
		if nscan >= endIdx-startIdx+1 {
			for k := startIdx; k <= endIdx; k++ {
				cuts = append(cuts, k)
			}
		} else {
			for k := 0; k < nscan; k++ {
				cuts = append(cuts, startIdx+(endIdx-startIdx)*k/(nscan-1+boolInt(nscan == 1)))
			}
			// always the last ten positions: marker flip and teardown live there
			for k := endIdx - 10; k <= endIdx; k++ {
				if k > startIdx {
					cuts = append(cuts, k)
				}
			}
		}
		seen := map[string]bool{}
		if !closed {
			_ = w.ks.Close()
			synctest.Wait()
		}
		for _, cut := range cuts {
			for _, drop := range []bool{false, true} {
				key := fmt.Sprintf("%d/%v", cut, drop)
				if seen[key] {
					continue
				}
				seen[key] = true
				sw := &ksWorld{mode: w.mode, prefixBits: w.prefixBits, batch: w.batch, bufcap: w.bufcap, j: full, stores: map[string]*jds{}}
				sw.reopenAt(cut, drop)
				scans = append(scans, fmt.Sprintf("%d/%d:%s", cut, boolInt(drop), strings.ReplaceAll(sw.contents(), " ", ";")))
				_ = sw.ks.Close()
				synctest.Wait()
			}
		}
		// carry on with the real world
		w.j, w.stores = full, fullStores
		if err := w.open(); err != nil {
			panic(err)
		}
		synctest.Wait()
		after = w.contents()
	} else if closed {
		if err := w.open(); err != nil {
			panic(err)
		}
		synctest.Wait()
		after = w.contents()
	}
	f := strings.Fields(c.In[line])
	var keep []string
	for _, x := range f {
		if !strings.HasPrefix(x, "hist=") {
			keep = append(keep, x)
		}
	}
	c.In[line] = strings.Join(keep, " ") + fmt.Sprintf(" hist=start:%d,ret:%d,ops:%d,err:%s,puts:%s", startIdx, retIdx, nops, ksErr(err), strings.Join(ps, "|"))
	return fmt.Sprintf("err=%s before=%s after=%s scans=%s", ksErr(err), strings.ReplaceAll(before, " ", ";"), strings.ReplaceAll(after, " ", ";"), strings.Join(scans, "~"))
}

func boolInt(b bool) int {
	if b {
		return 1
	}
	return 0
}

var _ = time.Second

func TestVerifC20(t *testing.T) {
	vu.Run(t, vu.Config{Prop: "C20", QuickN: 900, ThoroughN: 20000,
		Gen: func(r *vu.RNG, c *vu.Case) bool {
			if c.Idx%15 == 14 {
				// Close while a put is parked on a full reset buffer and the reset itself is inside a datastore call
				// the hanging call is one the reset goroutine makes itself (calls made on the worker, during opStart and
				// opCleanup, would keep the worker — and so Close — waiting for as long as they last)
				mode := []string{"shared", "factory"}[r.Intn(2)]
				g := r.Range(4, 7)
				if mode == "factory" {
					g = r.Range(1, 4)
				}
				c.In = append(c.In, fmt.Sprintf("ks mode=%s prefixbits=8 batch=100 bufcap=1", mode))
				c.In = append(c.In, "put keys=1,2,3")
				c.In = append(c.In, fmt.Sprintf("reset keys=4,5,6,7 puts=%d:8;%d:9;%d:10 scan=0 closeat=%d hangat=%d", g, g, g, g, g))
				c.In = append(c.In, "size")
				c.Tag("nontrivial")
				return true
			}
			mode := []string{"plain", "shared", "factory", "shared"}[r.Intn(4)]
			c.In = append(c.In, fmt.Sprintf("ks mode=%s prefixbits=%d batch=%d bufcap=%d", mode, []int{8, 8, 16}[r.Intn(3)], []int{1, 2, 3, 100}[r.Intn(4)], []int{1, 2, 100}[r.Intn(3)]))
			ids := func(n int) string {
				var ss []string
				for i := 0; i < n; i++ {
					ss = append(ss, fmt.Sprint(r.Intn(12)))
				}
				return strings.Join(ss, ",")
			}
			prefix := func() string {
				l := []int{0, 1, 2, 3, 8, 9, 10, 12, 16, 17, 18, 20}[r.Intn(12)]
				b := ksBits(r.Intn(12))
				if r.Chance(1, 4) {
					// a prefix that may match nothing
					x := []byte(b)
					x[r.Intn(len(x))] ^= 1
					b = string(x)
				}
				return "_" + b[:l]
			}
			steps := r.Range(4, 16)
			faulted := false
			for i := 0; i < steps; i++ {
				fail := ""
				if r.Chance(1, 10) {
					fail = fmt.Sprintf(" fail=%d", r.Range(1, 6))
				}
				switch x := r.Intn(20); {
				case x < 6:
					c.In = append(c.In, "put keys="+ids(r.Range(1, 4))+fail)
					faulted = faulted || fail != ""
				case x < 8:
					c.In = append(c.In, "del keys="+ids(r.Range(1, 3))+fail)
					faulted = faulted || fail != ""
				case x < 10:
					c.In = append(c.In, "get p="+prefix())
				case x < 11:
					c.In = append(c.In, fmt.Sprintf("count p=%s limit=%d", prefix(), r.Intn(4)))
				case x < 12:
					c.In = append(c.In, "has p="+prefix())
				case x < 13:
					if r.Bool() {
						c.In = append(c.In, "putclose keys="+ids(r.Range(1, 3)))
					} else {
						c.In = append(c.In, "size")
					}
				case x < 14:
					c.In = append(c.In, "restart")
				case x < 15:
					// a failed Sync is only logged: after one, what an unsynced crash loses is not determined
					drop := r.Intn(2)
					if faulted {
						drop = 0
					}
					c.In = append(c.In, fmt.Sprintf("crash drop=%d", drop))
				case x < 16:
					c.In = append(c.In, "empty")
				default:
					if mode == "plain" {
						c.In = append(c.In, "put keys="+ids(2))
						continue
					}
					var puts []string
					for k := 0; k < r.Intn(3); k++ {
						puts = append(puts, fmt.Sprintf("%d:%s", r.Range(1, 30), ids(r.Range(1, 3))))
					}
					extra := ""
					switch r.Intn(8) {
					case 0:
						extra = fmt.Sprintf(" failat=%d", r.Range(1, 30))
						faulted = true
					case 1:
						extra = fmt.Sprintf(" cancelat=%d", r.Range(1, 25))
					case 2:
						extra = fmt.Sprintf(" closeat=%d", r.Range(1, 25))
					}
					c.In = append(c.In, fmt.Sprintf("reset keys=%s puts=%s scan=%d%s", ids(r.Range(0, 6)), strings.Join(puts, ";"), []int{0, 6, 6}[r.Intn(3)], extra))
				}
			}
			c.In = append(c.In, "size")
			c.Tag("nontrivial")
			return true
		}, Exec: func(c *vu.Case) {
			func() {
				defer func() {
					if r := recover(); r != nil {
						for len(c.Out) < len(c.In) {
							c.Out = append(c.Out, "-")
						}
						c.Out[len(c.Out)-1] += " |BUBBLE:" + strings.ReplaceAll(fmt.Sprint(r), " ", "_")
					}
				}()
				synctest.Test(c.T, func(t *testing.T) { runKS(c) })
			}()
		}})
}

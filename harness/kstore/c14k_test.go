//go:build verif

package keystore

// C14 (sibling C14k): Close called concurrently. Real clock, real goroutines: several goroutines call Close on a fresh
// keystore (plain and resettable) at the same moment, many thousand times; none may panic, all must return.
// It can only ever report a real panic; that it meets one within the given number of rounds is a matter of timing
// (on the pinned code about one round in several thousand panicked with "close of closed channel", finding F23).

import (
	"fmt"
	"strconv"
	"sync"
	"sync/atomic"
	"testing"

	ds "github.com/ipfs/go-datastore"
	dssync "github.com/ipfs/go-datastore/sync"

	vu "github.com/libp2p/go-libp2p-kad-dht/internal/verifutil"
)

func runCloseRace(c *vu.Case) {
	a := map[string]string{}
	for _, f := range splitFields(c.In[0]) {
		a[f[0]] = f[1]
	}
	rounds, _ := strconv.Atoi(a["rounds"])
	callers, _ := strconv.Atoi(a["callers"])
	var panics, returned atomic.Int64
	first := ""
	var mu sync.Mutex
	for i := 0; i < rounds; i++ {
		var ks Keystore
		var err error
		if a["kind"] == "resettable" {
			ks, err = NewResettableKeystore(dssync.MutexWrap(ds.NewMapDatastore()))
		} else {
			ks, err = NewKeystore(dssync.MutexWrap(ds.NewMapDatastore()))
		}
		if err != nil {
			panic(err)
		}
		start := make(chan struct{})
		var wg sync.WaitGroup
		for g := 0; g < callers; g++ {
			wg.Add(1)
			go func() {
				defer wg.Done()
				defer func() {
					if r := recover(); r != nil {
						panics.Add(1)
						mu.Lock()
						if first == "" {
							first = fmt.Sprint(r)
						}
						mu.Unlock()
					}
				}()
				<-start
				_ = ks.Close()
				returned.Add(1)
			}()
		}
		close(start)
		wg.Wait()
	}
	out := fmt.Sprintf("panics=%d", min(panics.Load(), 1))
	if first != "" {
		out += " first:" + replaceSpaces(first)
	}
	c.Out = append(c.Out, out)
	c.Tag("nontrivial")
	c.Tag(fmt.Sprintf("panicked-%d-of-%d-calls", panics.Load(), int64(rounds*callers)))
}

func splitFields(s string) [][2]string {
	var out [][2]string
	cur := ""
	flush := func() {
		for i := 0; i < len(cur); i++ {
			if cur[i] == '=' {
				out = append(out, [2]string{cur[:i], cur[i+1:]})
				break
			}
		}
		cur = ""
	}
	for _, ch := range s {
		if ch == ' ' {
			flush()
		} else {
			cur += string(ch)
		}
	}
	flush()
	return out
}

func replaceSpaces(s string) string {
	b := []byte(s)
	for i := range b {
		if b[i] == ' ' {
			b[i] = '_'
		}
	}
	return string(b)
}

func TestVerifC14k(t *testing.T) {
	vu.Run(t, vu.Config{Prop: "C14k", QuickN: 4, ThoroughN: 24,
		Gen: func(r *vu.RNG, c *vu.Case) bool {
			rounds := 40000
			if c.Tier == "thorough" {
				rounds = 150000
			}
			c.In = append(c.In, fmt.Sprintf("closerace kind=%s rounds=%d callers=%d", []string{"plain", "resettable"}[c.Idx%2], rounds, []int{2, 4, 8}[r.Intn(3)]))
			return true
		},
		Exec: runCloseRace})
}

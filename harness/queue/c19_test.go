//go:build verif

package queue

import (
	"context"
	"crypto/sha256"
	"fmt"
	"sort"
	"strconv"
	"strings"
	"testing"

	ds "github.com/ipfs/go-datastore"
	dssync "github.com/ipfs/go-datastore/sync"
	"github.com/ipfs/go-libdht/kad/key"
	"github.com/ipfs/go-libdht/kad/key/bit256"
	"github.com/ipfs/go-libdht/kad/key/bitstr"
	mh "github.com/multiformats/go-multihash"

	vu "github.com/libp2p/go-libp2p-kad-dht/internal/verifutil"
	"github.com/libp2p/go-libp2p-kad-dht/provider/internal/keyspace"
)

const tokPrefixBits = 10
const tokIdxBits = 12

var tokCache = map[string]mh.Multihash{}
var tokRev = map[string]string{}

// resolve maps a key token (10 real identifier bits + 12 index bits) to a multihash whose Kademlia
// identifier starts with those 10 bits; deterministic, so a case file replays by itself.
func resolve(tok string) mh.Multihash {
	if h, ok := tokCache[tok]; ok {
		return h
	}
	for n := 0; ; n++ {
		h, _ := mh.Sum([]byte(fmt.Sprintf("verif-%s-%d", tok[tokPrefixBits:], n)), mh.SHA2_256, -1)
		id := key.BitString(bit256.NewKeyFromArray(sha256.Sum256(h)))
		if id[:tokPrefixBits] == tok[:tokPrefixBits] {
			tokCache[tok] = h
			tokRev[string(h)] = tok
			return h
		}
	}
}

func dash(s string) string {
	if s == "" {
		return "-"
	}
	return s
}
func undash(s string) string {
	if s == "-" {
		return ""
	}
	return s
}
func list(ss []string) string {
	if len(ss) == 0 {
		return "[]"
	}
	return "[" + strings.Join(ss, ",") + "]"
}
func unlist(s string) []string {
	s = strings.TrimSuffix(strings.TrimPrefix(s, "["), "]")
	if s == "" {
		return nil
	}
	return strings.Split(s, ",")
}

func toks(hs []mh.Multihash) string {
	ss := make([]string, len(hs))
	for i, h := range hs {
		ss[i] = tokRev[string(h)]
		if ss[i] == "" {
			ss[i] = "unknown"
		}
	}
	sort.Strings(ss)
	return list(ss)
}

type c19state struct {
	q  *ProvideQueue
	d  ds.Batching
	rq *ReprovideQueue
}

func (s *c19state) order() []string {
	var ps []string
	for p := range s.q.queue.queue.Iter() {
		ps = append(ps, dash(string(p)))
	}
	return ps
}

func (s *c19state) dump() string {
	hs := keyspace.AllValues(s.q.keys, zeroKey)
	// the prefix trie must hold exactly the queued prefixes
	tp := keyspace.AllKeys(s.q.queue.prefixes, zeroKey)
	ord := s.order()
	if len(tp) != len(ord) {
		return fmt.Sprintf("|INCONSISTENT trie=%v queue=%v", tp, ord)
	}
	if s.q.Size() != len(hs) || s.q.NumRegions() != len(ord) || s.q.IsEmpty() != (len(hs) == 0) {
		return "|INCONSISTENT size"
	}
	return "|" + list(ord) + "|" + toks(hs)
}

func (s *c19state) rdump() string {
	var ps []string
	for p := range s.rq.queue.queue.Iter() {
		ps = append(ps, dash(string(p)))
	}
	if s.rq.Size() != len(ps) || s.rq.IsEmpty() != (len(ps) == 0) {
		return "|INCONSISTENT"
	}
	return "|" + list(ps)
}

func newState() *c19state {
	return &c19state{q: NewProvideQueue(), d: dssync.MutexWrap(ds.NewMapDatastore()), rq: NewReprovideQueue()}
}

func execC19(c *vu.Case) {
	ctx := context.Background()
	s := newState()
	absorbed, partial, persisted := false, false, false
	for _, in := range c.In {
		f := strings.Fields(in)
		var out string
		func() {
			defer func() {
				if r := recover(); r != nil {
					out = fmt.Sprintf("panic:%v", r)
				}
			}()
			switch f[0] {
			case "new":
				s = newState()
				out = "ok" + s.dump()
			case "enq":
				p := undash(f[1])
				for _, q := range s.order() {
					if len(undash(q)) > len(p) && strings.HasPrefix(undash(q), p) {
						absorbed = true
					}
				}
				var hs []mh.Multihash
				for _, t := range unlist(f[2]) {
					hs = append(hs, resolve(t))
				}
				s.q.Enqueue(bitstr.Key(p), hs...)
				out = "ok" + s.dump()
			case "deq":
				p, hs, ok := s.q.Dequeue()
				if !ok {
					out = "none" + s.dump()
				} else {
					out = dash(string(p)) + ":" + toks(hs) + s.dump()
				}
			case "deqm":
				hs := s.q.DequeueMatching(bitstr.Key(undash(f[1])))
				out = toks(hs) + s.dump()
			case "rm":
				var hs []mh.Multihash
				for _, t := range unlist(f[1]) {
					hs = append(hs, resolve(t))
				}
				before := len(s.order())
				nb := s.q.Size()
				s.q.Remove(hs...)
				if len(s.order()) == before && s.q.Size() < nb {
					partial = true
				}
				out = "ok" + s.dump()
			case "clear":
				out = strconv.Itoa(s.q.Clear()) + s.dump()
			case "persist":
				bs := 2
				if len(f) > 1 {
					bs, _ = strconv.Atoi(f[1])
				}
				if err := s.q.Persist(ctx, s.d, bs); err != nil {
					out = "err:" + err.Error()
				} else {
					out = "ok" + s.dump()
				}
				persisted = true
			case "restart":
				s.q = NewProvideQueue()
				if err := s.q.DrainDatastore(ctx, s.d); err != nil {
					out = "err:" + err.Error()
				} else {
					out = "ok" + s.dump()
				}
			case "drain":
				if err := s.q.DrainDatastore(ctx, s.d); err != nil {
					out = "err:" + err.Error()
				} else {
					out = "ok" + s.dump()
				}
			case "renq":
				var ps []bitstr.Key
				for _, p := range unlist(f[1]) {
					ps = append(ps, bitstr.Key(undash(p)))
				}
				s.rq.Enqueue(ps...)
				out = "ok" + s.rdump()
			case "rdeq":
				p, ok := s.rq.Dequeue()
				if !ok {
					out = "none" + s.rdump()
				} else {
					out = dash(string(p)) + s.rdump()
				}
			case "rrm":
				out = strconv.FormatBool(s.rq.Remove(bitstr.Key(undash(f[1])))) + s.rdump()
			case "rclear":
				out = strconv.Itoa(s.rq.Clear()) + s.rdump()
			default:
				out = "bad-op"
			}
		}()
		c.Out = append(c.Out, out)
	}
	if absorbed {
		c.Tag("absorption")
	}
	if partial {
		c.Tag("partial-removal")
	}
	if persisted {
		c.Tag("persist")
	}
	if absorbed && partial {
		c.Tag("nontrivial")
	}
}

// ---- generation ----------------------------------------------------------------------------

type genState struct {
	r      *vu.RNG
	base   string
	nextID int
	keys   []string // tokens handed out so far
}

func (g *genState) pattern(prefix string) string {
	p := prefix
	if len(p) > tokPrefixBits {
		p = p[:tokPrefixBits]
	}
	return p + g.r.Bits(tokPrefixBits-len(p))
}

func (g *genState) newKey(prefix string) string {
	id := g.nextID
	g.nextID++
	idx := strconv.FormatInt(int64(id), 2)
	idx = strings.Repeat("0", tokIdxBits-len(idx)) + idx
	t := g.pattern(prefix) + idx
	g.keys = append(g.keys, t)
	return t
}

func (g *genState) somePrefix(maxLen int) string {
	r := g.r
	switch {
	case len(g.keys) > 0 && r.Chance(2, 3):
		k := g.keys[r.Intn(len(g.keys))]
		return k[:r.Intn(maxLen+1)]
	default:
		l := r.Intn(maxLen + 1)
		if l <= len(g.base) {
			return g.base[:l]
		}
		return g.base + r.Bits(l-len(g.base))
	}
}

func genC19(r *vu.RNG, c *vu.Case) bool {
	if c.Idx%12 == 11 {
		// a long queue: many disjoint regions enqueued in a scrambled order, persisted, restored, dequeued to the end
		g := &genState{r: r}
		l := r.Range(5, 6)
		n := r.Range(17, 30) // fewer than the 2^l disjoint prefixes there are
		seen := map[string]bool{}
		c.In = append(c.In, "new")
		for len(seen) < n {
			p := r.Bits(l)
			if seen[p] {
				continue
			}
			seen[p] = true
			var ks []string
			for j := 0; j < r.Range(1, 2); j++ {
				ks = append(ks, g.newKey(p))
			}
			c.In = append(c.In, "enq "+p+" "+list(ks))
		}
		c.In = append(c.In, "persist "+strconv.Itoa(r.Range(1, 5)), "restart")
		for i := 0; i < n+1; i++ {
			c.In = append(c.In, "deq")
		}
		c.Tag("long-queue")
		return true
	}
	g := &genState{r: r, base: r.Bits(r.Intn(4))}
	n := r.Range(4, 24)
	if c.Tier == "thorough" {
		n = r.Range(4, 60)
	}
	maxLen := r.Range(1, 7)
	c.In = append(c.In, "new")
	for i := 0; i < n; i++ {
		switch x := r.Intn(100); {
		case x < 40:
			p := g.somePrefix(maxLen)
			nk := r.Range(0, 4)
			if r.Chance(1, 20) {
				nk = 0
			}
			var ks []string
			for j := 0; j < nk; j++ {
				if len(g.keys) > 0 && r.Chance(1, 4) {
					// re-enqueue an existing key if it matches
					k := g.keys[r.Intn(len(g.keys))]
					if strings.HasPrefix(k, p) {
						ks = append(ks, k)
						continue
					}
				}
				ks = append(ks, g.newKey(p))
			}
			c.In = append(c.In, "enq "+dash(p)+" "+list(ks))
		case x < 52:
			c.In = append(c.In, "deq")
		case x < 62:
			c.In = append(c.In, "deqm "+dash(g.somePrefix(maxLen+1)))
		case x < 76:
			var ks []string
			for j := 0; j < r.Range(1, 4) && len(g.keys) > 0; j++ {
				ks = append(ks, g.keys[r.Intn(len(g.keys))])
			}
			if r.Chance(1, 6) {
				ks = append(ks, g.newKey(g.somePrefix(maxLen))) // a key that was never enqueued
			}
			if len(ks) > 0 {
				c.In = append(c.In, "rm "+list(ks))
			}
		case x < 78:
			c.In = append(c.In, "clear")
		case x < 88:
			c.In = append(c.In, "persist "+strconv.Itoa(r.Range(1, 5)))
			if r.Chance(3, 4) {
				c.In = append(c.In, "restart")
			} else if r.Bool() {
				c.In = append(c.In, "drain")
			}
		case x < 90:
			c.In = append(c.In, "drain")
		case x < 95:
			var ps []string
			for j := 0; j < r.Range(1, 3); j++ {
				ps = append(ps, dash(g.somePrefix(maxLen)))
			}
			c.In = append(c.In, "renq "+list(ps))
		case x < 97:
			c.In = append(c.In, "rdeq")
		case x < 99:
			c.In = append(c.In, "rrm "+dash(g.somePrefix(maxLen)))
		default:
			c.In = append(c.In, "rclear")
		}
	}
	return true
}

func TestVerifC19(t *testing.T) {
	vu.Run(t, vu.Config{Prop: "C19", QuickN: 4000, ThoroughN: 200000, Gen: genC19, Exec: execC19})
}

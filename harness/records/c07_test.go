//go:build verif

package records

import (
	"context"
	"fmt"
	"sort"
	"strconv"
	"strings"
	"sync/atomic"
	"testing"
	"testing/synctest"
	"time"

	lru "github.com/hashicorp/golang-lru/simplelru"
	ds "github.com/ipfs/go-datastore"
	dsq "github.com/ipfs/go-datastore/query"
	dssync "github.com/ipfs/go-datastore/sync"
	"github.com/libp2p/go-libp2p/core/peer"
	"github.com/libp2p/go-libp2p/p2p/host/peerstore/pstoremem"
	"github.com/multiformats/go-base32"

	vu "github.com/libp2p/go-libp2p-kad-dht/internal/verifutil"
)

// countingDS counts every datastore access (to check the Close fence).
type countingDS struct {
	ds.Batching
	n atomic.Int64
	// gate: when armed, the next Query announces itself on hit and waits for release
	armed   atomic.Bool
	hit     chan struct{}
	release chan struct{}
	// the same for the next Put
	armedPut atomic.Bool
}

func (c *countingDS) Put(ctx context.Context, k ds.Key, v []byte) error {
	if c.armedPut.CompareAndSwap(true, false) {
		c.hit <- struct{}{}
		<-c.release
	}
	c.n.Add(1)
	return c.Batching.Put(ctx, k, v)
}
func (c *countingDS) Get(ctx context.Context, k ds.Key) ([]byte, error) {
	c.n.Add(1)
	return c.Batching.Get(ctx, k)
}
func (c *countingDS) Has(ctx context.Context, k ds.Key) (bool, error) {
	c.n.Add(1)
	return c.Batching.Has(ctx, k)
}
func (c *countingDS) Delete(ctx context.Context, k ds.Key) error {
	c.n.Add(1)
	return c.Batching.Delete(ctx, k)
}
func (c *countingDS) Query(ctx context.Context, q dsq.Query) (dsq.Results, error) {
	if c.armed.CompareAndSwap(true, false) {
		c.hit <- struct{}{}
		<-c.release
	}
	c.n.Add(1)
	return c.Batching.Query(ctx, q)
}
func (c *countingDS) Batch(ctx context.Context) (ds.Batch, error) {
	c.n.Add(1)
	return c.Batching.Batch(ctx)
}

func base32Decode(s string) ([]byte, error) { return base32.RawStdEncoding.DecodeString(s) }

func c07Key(k string) []byte     { return []byte("key-" + k) }
func c07Peer(p string) peer.ID   { return peer.ID("peer-" + p) }
func c07Unpeer(p peer.ID) string { return strings.TrimPrefix(string(p), "peer-") }
func c07Unkey(k string) string   { return strings.TrimPrefix(k, "key-") }

func natList(ss []string) string {
	sort.Slice(ss, func(i, j int) bool {
		a, _ := strconv.Atoi(ss[i])
		b, _ := strconv.Atoi(ss[j])
		return a < b
	})
	if len(ss) == 0 {
		return "[]"
	}
	return "[" + strings.Join(ss, ",") + "]"
}

func execC07(c *vu.Case) {
	if len(c.In) > 0 && strings.HasSuffix(c.In[0], " real") {
		// histories with concurrent pairs run on the real clock (a goroutine parked on a sync.Mutex is
		// not durably blocked, so a synctest bubble cannot wait for it)
		runC07(c, c.T)
		return
	}
	// the whole history runs in one synctest bubble: virtual clock, goroutines joined at the end
	synctest.Test(c.T, func(t *testing.T) { runC07(c, t) })
}

func runC07(c *vu.Case, t *testing.T) {
	{
		ctx := context.Background()
		start := time.Now()
		cds := &countingDS{Batching: dssync.MutexWrap(ds.NewMapDatastore()), hit: make(chan struct{}), release: make(chan struct{})}
		pstore, err := pstoremem.NewPeerstore()
		if err != nil {
			panic(err)
		}
		var all []*ProviderManager
		var pm *ProviderManager
		var cache *lru.LRU
		capN, validity := 1, time.Duration(0)
		mk := func() {
			cache, _ = lru.NewLRU(capN, nil)
			pm, err = NewProviderManager(peer.ID("self"), pstore, cds, Cache(cache), ProvideValidity(validity), CleanupInterval(0))
			if err != nil {
				panic(err)
			}
			all = append(all, pm)
		}
		cacheStr := func() string {
			var ks []string
			for _, k := range cache.Keys() {
				ks = append(ks, c07Unkey(k.(string)))
			}
			if len(ks) == 0 {
				return "|cache=[]"
			}
			return "|cache=[" + strings.Join(ks, ",") + "]"
		}
		closed := false
		feats := map[string]bool{}
		for _, in := range c.In {
			f := strings.Fields(in)
			var out string
			before := cds.n.Load()
			switch f[0] {
			case "new":
				capN, _ = strconv.Atoi(f[1])
				v, _ := strconv.Atoi(f[2])
				validity = time.Duration(v)
				mk()
				closed = false
				out = "ok" + cacheStr()
			case "add":
				err := pm.AddProvider(ctx, c07Key(f[1]), peer.AddrInfo{ID: c07Peer(f[2])})
				switch {
				case err == nil:
					out = "ok"
				case err == ErrClosed:
					out = "closed"
				default:
					out = "err:" + err.Error()
				}
				out += cacheStr()
				feats["add"] = true
			case "get":
				infos, err := pm.GetProviders(ctx, c07Key(f[1]))
				switch {
				case err == ErrClosed:
					out = "closed"
				case err != nil:
					out = "err:" + err.Error()
				default:
					var ps []string
					for _, ai := range infos {
						ps = append(ps, c07Unpeer(ai.ID))
					}
					out = natList(ps)
				}
				out += cacheStr()
			case "adv":
				d, _ := strconv.Atoi(f[1])
				time.Sleep(time.Duration(d))
				out = "ok" + cacheStr()
				feats["adv"] = true
			case "gc":
				pm.collectExpired(ctx)
				out = "ok" + cacheStr()
				feats["gc"] = true
			case "gcclose":
				// a manager with a periodic sweep on the same datastore: its sweep is held inside the datastore query when
				// Close is called. Close must wait for it, and nothing touches the datastore once Close has returned.
				cache2, _ := lru.NewLRU(capN, nil)
				pm2, err := NewProviderManager(peer.ID("self"), pstore, cds, Cache(cache2), ProvideValidity(validity), CleanupInterval(3))
				if err != nil {
					panic(err)
				}
				cds.armed.Store(true)
				held := false
				select {
				case <-cds.hit:
					held = true
				case <-time.After(1000):
				}
				cds.armed.Store(false)
				g2 := make(chan struct{})
				go func() { pm2.Close(); close(g2) }()
				early := false
				select {
				case <-g2:
					early = true
				case <-time.After(1):
				}
				out = "ok"
				var after int64
				if early {
					after = cds.n.Load()
				}
				if held {
					cds.release <- struct{}{}
				}
				<-g2
				synctest.Wait()
				if !held {
					out += "|NO-PERIODIC-SWEEP"
				}
				if early && held {
					out += "|CLOSE-RETURNED-DURING-SWEEP"
					if cds.n.Load() != after {
						out += "|TOUCHED-DATASTORE-AFTER-CLOSE"
					}
				}
				out += cacheStr()
				before = cds.n.Load()
				feats["gc"] = true
			case "restart":
				if len(in)%2 == 0 && !closed {
					pm.Close()
				}
				mk()
				closed = false
				out = "ok" + cacheStr()
				feats["restart"] = true
			case "close":
				pm.Close()
				pm.Close() // repeated Close must be harmless
				closed = true
				out = "ok" + cacheStr()
			case "par", "parclose":
				// G1: GetProviders(k), held inside its datastore query (if it makes one);
				// G2: AddProvider(k, p) resp. Close, started while G1 is held.
				cds.armed.Store(true)
				g1 := make(chan string, 1)
				go func() {
					infos, err := pm.GetProviders(ctx, c07Key(f[1]))
					if err != nil {
						g1 <- "err:" + err.Error()
						return
					}
					var ps []string
					for _, ai := range infos {
						ps = append(ps, c07Unpeer(ai.ID))
					}
					g1 <- natList(ps)
				}()
				held := false
				var r1 string
				select {
				case <-cds.hit:
					held = true
				case r1 = <-g1:
				}
				cds.armed.Store(false)
				g2 := make(chan string, 1)
				go func() {
					if f[0] == "par" {
						if err := pm.AddProvider(ctx, c07Key(f[1]), peer.AddrInfo{ID: c07Peer(f[2])}); err != nil {
							g2 <- "err:" + err.Error()
							return
						}
					} else {
						pm.Close()
					}
					g2 <- "ok"
				}()
				early := false
				var r2 string
				if held {
					select {
					case r2 = <-g2:
						early = true // G2 finished although G1 is still inside its locked section
					case <-time.After(25 * time.Millisecond):
					}
					if early && f[0] == "parclose" {
						closed = true
						before = cds.n.Load()
					}
					cds.release <- struct{}{}
					r1 = <-g1
				}
				if !early {
					r2 = <-g2
				}
				if f[0] == "parclose" {
					closed = true
					if early && cds.n.Load() != before {
						r2 += "|TOUCHED-DATASTORE-AFTER-CLOSE"
					}
					before = cds.n.Load()
				}
				out = r1 + "+" + r2 + cacheStr()
				feats["concurrent"] = true
			case "rpar", "rparclose":
				// the other way round: G1 = AddProvider(k, p), held inside its datastore write;
				// G2 = GetProviders(k) resp. Close, started while G1 is held. Whatever G2 sees (it is concurrent with the
				// addition), once both have returned the provider must be served, and Close must not have returned while the
				// addition was still going to touch the datastore.
				cds.armedPut.Store(true)
				g1 := make(chan string, 1)
				go func() {
					if err := pm.AddProvider(ctx, c07Key(f[1]), peer.AddrInfo{ID: c07Peer(f[2])}); err != nil {
						g1 <- "err:" + err.Error()
						return
					}
					g1 <- "ok"
				}()
				held := false
				var r1 string
				select {
				case <-cds.hit:
					held = true
				case r1 = <-g1:
				}
				cds.armedPut.Store(false)
				g2 := make(chan string, 1)
				go func() {
					if f[0] == "rpar" {
						_, err := pm.GetProviders(ctx, c07Key(f[1]))
						if err != nil {
							g2 <- "err:" + err.Error()
							return
						}
					} else {
						pm.Close()
					}
					g2 <- "ok"
				}()
				early := false
				if held {
					select {
					case <-g2:
						early = true
					case <-time.After(25 * time.Millisecond):
					}
					if early && f[0] == "rparclose" {
						before = cds.n.Load()
					}
					cds.release <- struct{}{}
					r1 = <-g1
				}
				if !early {
					<-g2
				}
				r2 := "ok"
				if f[0] == "rparclose" {
					closed = true
					if early && cds.n.Load() != before {
						r2 += "|TOUCHED-DATASTORE-AFTER-CLOSE"
					}
					before = cds.n.Load()
				} else {
					// the query that counts: after both have returned
					infos, err := pm.GetProviders(ctx, c07Key(f[1]))
					if err != nil {
						r2 = "err:" + err.Error()
					} else {
						var ps []string
						for _, ai := range infos {
							ps = append(ps, c07Unpeer(ai.ID))
						}
						r2 = natList(ps)
					}
				}
				out = r1 + "+" + r2 + cacheStr()
				feats["concurrent"] = true
			case "disk":
				res, _ := cds.Batching.Query(ctx, dsq.Query{Prefix: ProvidersKeyPrefix})
				es, _ := res.Rest()
				type rec struct{ k, p, t int }
				var recs []rec
				for _, e := range es {
					parts := strings.Split(strings.TrimPrefix(e.Key, ProvidersKeyPrefix), "/")
					kb, _ := base32Decode(parts[0])
					pb, _ := base32Decode(parts[1])
					tv, _ := readTimeValue(e.Value)
					k, _ := strconv.Atoi(c07Unkey(string(kb)))
					p, _ := strconv.Atoi(c07Unpeer(peer.ID(pb)))
					recs = append(recs, rec{k, p, int(tv.Sub(start))})
				}
				sort.Slice(recs, func(i, j int) bool {
					return recs[i].k < recs[j].k || (recs[i].k == recs[j].k && recs[i].p < recs[j].p)
				})
				var ss []string
				for _, r := range recs {
					ss = append(ss, fmt.Sprintf("%d/%d@%d", r.k, r.p, r.t))
				}
				out = "[" + strings.Join(ss, ",") + "]"
				if len(ss) == 0 {
					out = "[]"
				}
				before = cds.n.Load()
			default:
				out = "bad-op"
			}
			if closed && cds.n.Load() != before {
				out += "|TOUCHED-DATASTORE-AFTER-CLOSE"
			}
			c.Out = append(c.Out, out)
		}
		if cache != nil && cache.Len() >= capN && feats["restart"] && feats["add"] && ((feats["adv"] && feats["gc"]) || feats["concurrent"]) {
			c.Tag("nontrivial")
		}
		for k := range feats {
			c.Tag(k)
		}
		for _, m := range all {
			m.Close()
		}
		pstore.Close()
	}
}

func genC07(r *vu.RNG, c *vu.Case) bool {
	if c.Idx%10 == 9 {
		// concurrent pairs, real clock, no expiry
		capN := r.Range(1, 3)
		nk, np := capN+r.Range(1, 2), r.Range(2, 4)
		c.In = append(c.In, fmt.Sprintf("new %d 1000000000000000000 real", capN))
		for i := 0; i < r.Range(6, 20); i++ {
			switch x := r.Intn(100); {
			case x < 30:
				c.In = append(c.In, fmt.Sprintf("add %d %d", r.Intn(nk), r.Intn(np)))
			case x < 55:
				c.In = append(c.In, fmt.Sprintf("get %d", r.Intn(nk)))
			case x < 70:
				c.In = append(c.In, fmt.Sprintf("par %d %d", r.Intn(nk), r.Intn(np)))
			case x < 85:
				c.In = append(c.In, fmt.Sprintf("rpar %d %d", r.Intn(nk), r.Intn(np)))
			case x < 90:
				c.In = append(c.In, "restart")
			case x < 95:
				c.In = append(c.In, fmt.Sprintf("rparclose %d %d", r.Intn(nk), r.Intn(np)), fmt.Sprintf("get %d", r.Intn(nk)), "restart")
			default:
				c.In = append(c.In, fmt.Sprintf("parclose %d", r.Intn(nk)), fmt.Sprintf("get %d", r.Intn(nk)), "restart")
			}
		}
		for k := 0; k < nk; k++ {
			c.In = append(c.In, fmt.Sprintf("get %d", k))
		}
		return true
	}
	capN := r.Range(1, 4)
	validity := r.Range(5, 40)
	nk := capN + r.Range(1, 4)
	if r.Chance(1, 10) {
		nk = r.Range(1, capN)
	}
	np := r.Range(1, 5)
	n := r.Range(8, 50)
	if c.Tier == "thorough" {
		n = r.Range(8, 150)
		if r.Chance(1, 5) {
			nk = r.Range(50, 600)
			np = 8
		}
	}
	c.In = append(c.In, fmt.Sprintf("new %d %d", capN, validity))
	for i := 0; i < n; i++ {
		switch x := r.Intn(100); {
		case x < 35:
			c.In = append(c.In, fmt.Sprintf("add %d %d", r.Intn(nk), r.Intn(np)))
		case x < 65:
			c.In = append(c.In, fmt.Sprintf("get %d", r.Intn(nk)))
		case x < 83:
			d := r.Range(1, validity)
			if r.Chance(1, 4) {
				d = validity + r.Range(-1, 1)
			}
			c.In = append(c.In, fmt.Sprintf("adv %d", d))
		case x < 90:
			if r.Chance(1, 4) {
				c.In = append(c.In, "gcclose")
			} else {
				c.In = append(c.In, "gc")
			}
			if r.Bool() {
				c.In = append(c.In, "disk")
			}
		case x < 96:
			if r.Bool() {
				c.In = append(c.In, "restart")
			} else {
				c.In = append(c.In, "restart  ")
			}
		case x < 98:
			c.In = append(c.In, "close")
			for j := 0; j < r.Range(1, 3); j++ {
				if r.Bool() {
					c.In = append(c.In, fmt.Sprintf("get %d", r.Intn(nk)))
				} else {
					c.In = append(c.In, fmt.Sprintf("add %d %d", r.Intn(nk), r.Intn(np)))
				}
			}
			c.In = append(c.In, "restart")
		default:
			c.In = append(c.In, "disk")
		}
	}
	c.In = append(c.In, "disk")
	return true
}

func TestVerifC07(t *testing.T) {
	vu.Run(t, vu.Config{Prop: "C07", QuickN: 3000, ThoroughN: 60000, Gen: genC07, Exec: execC07})
}

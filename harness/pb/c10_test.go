//go:build verif

package dht_pb

import (
	"context"
	"fmt"
	"strconv"
	"strings"
	"sync"
	"sync/atomic"
	"testing"

	"go.opentelemetry.io/otel"
	"go.opentelemetry.io/otel/trace"
	"go.opentelemetry.io/otel/trace/embedded"
	"go.opentelemetry.io/otel/trace/noop"

	recpb "github.com/libp2p/go-libp2p-record/pb"
	"github.com/libp2p/go-libp2p/core/peer"
	ma "github.com/multiformats/go-multiaddr"
	mh "github.com/multiformats/go-multihash"

	vu "github.com/libp2p/go-libp2p-kad-dht/internal/verifutil"
)

// a sender that answers every request with a prepared message
type cannedSender struct{ resp *Message }

func (s *cannedSender) SendRequest(ctx context.Context, p peer.ID, m *Message) (*Message, error) {
	return s.resp, nil
}
func (s *cannedSender) SendMessage(ctx context.Context, p peer.ID, m *Message) error { return nil }

func c10Addr(id, length int, valid bool) []byte {
	if !valid {
		b := make([]byte, length)
		for i := range b {
			b[i] = 0xff
		}
		return b
	}
	port := 1000 + id%50000
	if length <= 8 {
		m, _ := ma.NewMultiaddr(fmt.Sprintf("/ip4/8.%d.%d.%d/tcp/%d", (id>>16)&255, (id>>8)&255, id&255, port))
		return m.Bytes()
	}
	n := length - 5
	if n >= 128 {
		n = length - 6
	}
	name := fmt.Sprintf("h%d.", id)
	if len(name) < n {
		name += strings.Repeat("x", n-len(name))
	}
	name = name[:n]
	if strings.HasSuffix(name, ".") {
		name = name[:n-1] + "y"
	}
	m, err := ma.NewMultiaddr(fmt.Sprintf("/dns4/%s/tcp/%d", name, port))
	if err != nil || len(m.Bytes()) != length {
		panic(fmt.Sprintf("c10Addr(%d): %v", length, err))
	}
	return m.Bytes()
}

func kvs(fields []string) map[string]string {
	m := map[string]string{}
	for _, f := range fields {
		if i := strings.IndexByte(f, '='); i > 0 {
			m[f[:i]] = f[i+1:]
		}
	}
	return m
}

func parsePeers(s string) []*Message_Peer {
	if s == "-" || s == "" {
		return nil
	}
	var out []*Message_Peer
	aid := 0
	for _, t := range strings.Split(s, "|") {
		parts := strings.Split(t, "/")
		idlen, _ := strconv.Atoi(parts[0])
		cv, _ := strconv.ParseUint(parts[1], 10, 64)
		p := &Message_Peer{Id: make([]byte, idlen), Connection: Message_ConnectionType(int32(int64(cv)))}
		if parts[2] != "-" {
			for _, a := range strings.Split(parts[2], ";") {
				ld := strings.Split(a, ":")
				l, _ := strconv.Atoi(ld[0])
				p.Addrs = append(p.Addrs, c10Addr(aid, l, ld[1] == "1"))
				aid++
			}
		}
		out = append(out, p)
	}
	return out
}

func counts(ps []*peer.AddrInfo, idlens []*Message_Peer) string {
	var ss []string
	over := ""
	for i, p := range ps {
		ss = append(ss, strconv.Itoa(len(p.Addrs)))
		// size of the sanitised record as it would be re-encoded
		size := 1 + sizeBytesC10(len(p.ID)) + 2
		for _, a := range p.Addrs {
			size += 1 + sizeBytesC10(len(a.Bytes()))
		}
		_ = idlens
		_ = i
		if size > MaxPeerRecordSize && len(p.Addrs) > 0 {
			over = "|OVERSIZE-RECORD"
		}
	}
	return "[" + strings.Join(ss, ",") + "]" + over
}

func sizeBytesC10(n int) int {
	v := 1
	for x := n; x >= 128; x >>= 7 {
		v++
	}
	return v + n
}

func errClass(err error) string {
	s := err.Error()
	switch {
	case strings.Contains(s, "incorrect record"):
		return "err:received incorrect record"
	case strings.Contains(s, "unexpected response type"):
		return "err:unexpected response type"
	case strings.Contains(s, "value not put"):
		return "err:value not put correctly"
	}
	return "err:" + s
}

// A tracer provider whose spans are recording, as on a node that runs with tracing switched on (the OpenTelemetry SDK is
// not among the module's dependencies): the messenger's deferred tracing blocks then run too, and must not be able to
// crash the node either.
type recSpan struct{ noop.Span }

func (recSpan) IsRecording() bool { return true }

type recTracer struct{ embedded.Tracer }

func (recTracer) Start(ctx context.Context, name string, opts ...trace.SpanStartOption) (context.Context, trace.Span) {
	if !c10Tracing.Load() {
		return noop.NewTracerProvider().Tracer("").Start(ctx, name, opts...)
	}
	s := recSpan{}
	return trace.ContextWithSpan(ctx, s), s
}

type recTracerProvider struct{ embedded.TracerProvider }

func (recTracerProvider) Tracer(string, ...trace.TracerOption) trace.Tracer { return recTracer{} }

var c10Tracing atomic.Bool
var c10TracerOnce sync.Once

func runC10Line(in string) (out string) {
	defer func() {
		if r := recover(); r != nil {
			out = "panic"
		}
	}()
	c10TracerOnce.Do(func() { otel.SetTracerProvider(recTracerProvider{}) })
	c10Tracing.Store(len(in)%4 != 0)
	f := strings.Fields(in)
	a := kvs(f)
	ctx := context.Background()
	key := "/v/requested"
	value := []byte("1:ok")
	typ, _ := strconv.Atoi(a["type"])
	resp := &Message{Type: Message_MessageType(typ), Key: []byte(key)}
	if a["rec"] != "-" {
		kv := strings.Split(a["rec"], ":")
		rec := &recpb.Record{Key: []byte(key), Value: value}
		if kv[0] == "2" {
			// a well-formed answer to a different question: envelope and record agree on another key
			rec.Key = []byte("/v/other")
			resp.Key = []byte("/v/other")
		} else if kv[0] != "1" {
			rec.Key = []byte("/v/other")
			if len(in)%2 == 0 {
				rec.Key = nil
			}
		}
		if kv[1] != "1" {
			rec.Value = []byte("9:other")
		}
		resp.Record = rec
	}
	resp.CloserPeers = parsePeers(a["closer"])
	resp.ProviderPeers = parsePeers(a["provs"])
	pm, _ := NewProtocolMessenger(&cannedSender{resp: resp})
	p := peer.ID("remote")
	switch f[1] {
	case "putValue":
		if err := pm.PutValue(ctx, p, &recpb.Record{Key: []byte(key), Value: value}); err != nil {
			return errClass(err)
		}
		return "ok rec=0 closer=[] provs=[]"
	case "getValue":
		rec, peers, err := pm.GetValue(ctx, p, key)
		if err != nil {
			return errClass(err)
		}
		r := 0
		if rec != nil {
			r = 1
			if string(rec.GetKey()) != key {
				return "ACCEPTED-RECORD-FOR-OTHER-KEY"
			}
		}
		return fmt.Sprintf("ok rec=%d closer=%s provs=[]", r, counts(peers, resp.CloserPeers))
	case "getClosestPeers":
		peers, err := pm.GetClosestPeers(ctx, p, peer.ID("target"))
		if err != nil {
			return errClass(err)
		}
		return fmt.Sprintf("ok rec=0 closer=%s provs=[]", counts(peers, resp.CloserPeers))
	case "getProviders":
		h, _ := mh.Sum([]byte("x"), mh.SHA2_256, -1)
		provs, peers, err := pm.GetProviders(ctx, p, h)
		if err != nil {
			return errClass(err)
		}
		return fmt.Sprintf("ok rec=0 closer=%s provs=%s", counts(peers, resp.CloserPeers), counts(provs, resp.ProviderPeers))
	case "ping":
		if err := pm.Ping(ctx, p); err != nil {
			return errClass(err)
		}
		return "ok rec=0 closer=[] provs=[]"
	}
	return "bad-op"
}

func genPeers(r *vu.RNG) string {
	n := r.Range(0, 4)
	if r.Chance(1, 10) {
		n = r.Range(30, 120) // far more than any honest peer sends
	}
	if n == 0 {
		return "-"
	}
	var ps []string
	for i := 0; i < n; i++ {
		idlen := []int{0, 2, 38, 38, 38, 38, 600}[r.Intn(7)]
		conn := []string{"0", "1", "2", "3", "77", "18446744073709551615"}[r.Intn(6)]
		na := r.Range(0, 4)
		uniform := r.Range(12, 250)
		if r.Chance(1, 8) && n < 10 {
			na = r.Range(40, 400)
		}
		var as []string
		for j := 0; j < na; j++ {
			l := 8
			switch {
			case na > 10:
				l = uniform
			case r.Chance(1, 3):
				l = r.Range(12, 200)
			}
			if l == 133 || (l > 8 && l < 12) {
				l = 134
			}
			d := 1
			if r.Chance(1, 5) {
				d = 0
				if l == 8 {
					l = r.Range(3, 40)
				}
			}
			as = append(as, fmt.Sprintf("%d:%d", l, d))
		}
		s := "-"
		if len(as) > 0 {
			s = strings.Join(as, ";")
		}
		ps = append(ps, fmt.Sprintf("%d/%s/%s", idlen, conn, s))
	}
	return strings.Join(ps, "|")
}

func genC10(r *vu.RNG, c *vu.Case) bool {
	methods := []string{"putValue", "getValue", "getClosestPeers", "getProviders", "ping"}
	types := []int{0, 1, 2, 3, 4, 5, 5, 6, 99, -1}
	if c.Idx < len(methods)*len(types)*7*2 {
		// every method x response type x record shape x (no peers / peers): the whole decision table
		i := c.Idx
		m := methods[i%len(methods)]
		i /= len(methods)
		t := types[i%len(types)]
		i /= len(types)
		rec := []string{"-", "1:1", "1:0", "0:1", "0:0", "2:1", "2:0"}[i%7]
		i /= 7
		peers := "-"
		if i%2 == 1 {
			peers = genPeers(r)
		}
		c.In = append(c.In, fmt.Sprintf("call %s type=%d rec=%s closer=%s provs=%s", m, t, rec, peers, genPeers(r)))
		c.Tag("table")
	} else {
		m := methods[r.Intn(len(methods))]
		rec := []string{"-", "1:1", "1:1", "1:0", "0:1", "0:0", "2:1", "2:0"}[r.Intn(8)]
		c.In = append(c.In, fmt.Sprintf("call %s type=%d rec=%s closer=%s provs=%s", m, types[r.Intn(len(types))], rec, genPeers(r), genPeers(r)))
	}
	c.Tag("m-" + strings.Fields(c.In[0])[1])
	if strings.Contains(c.In[0], ":0") || strings.Contains(c.In[0], "rec=-") {
		c.Tag("nontrivial")
	}
	return true
}

func TestVerifC10(t *testing.T) {
	vu.Run(t, vu.Config{Prop: "C10", QuickN: 4000, ThoroughN: 150000, Gen: genC10, Exec: func(c *vu.Case) {
		for _, in := range c.In {
			c.Out = append(c.Out, runC10Line(in))
		}
	}})
}

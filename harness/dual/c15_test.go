//go:build verif

package dual

import (
	"context"
	"errors"
	"fmt"
	"math/big"
	"net"
	"os"
	"sort"
	"strconv"
	"strings"
	"testing"
	"testing/synctest"
	"time"

	"github.com/ipfs/go-cid"
	record "github.com/libp2p/go-libp2p-record"
	recpb "github.com/libp2p/go-libp2p-record/pb"
	"github.com/libp2p/go-libp2p/core/host"
	"github.com/libp2p/go-libp2p/core/network"
	"github.com/libp2p/go-libp2p/core/peer"
	"github.com/libp2p/go-libp2p/core/protocol"
	"github.com/libp2p/go-libp2p/core/routing"
	kb "github.com/libp2p/go-libp2p-kbucket"
	ma "github.com/multiformats/go-multiaddr"
	mh "github.com/multiformats/go-multihash"
	"github.com/multiformats/go-varint"
	"google.golang.org/protobuf/proto"

	dht "github.com/libp2p/go-libp2p-kad-dht"
	"github.com/libp2p/go-libp2p-kad-dht/internal/simnet"
	vu "github.com/libp2p/go-libp2p-kad-dht/internal/verifutil"
	pb "github.com/libp2p/go-libp2p-kad-dht/pb"
)

func dPeer(n int) peer.ID { return peer.ID(fmt.Sprintf("verif-peer-%027d", n)) }

func dPeerNum(p peer.ID) int {
	s := strings.TrimLeft(strings.TrimPrefix(string(p), "verif-peer-"), "0")
	if s == "" {
		return 0
	}
	n, err := strconv.Atoi(s)
	if err != nil {
		return -1
	}
	return n
}

// record values are "<rank>:ok"; higher rank wins
type dValidator struct{}

func (dValidator) Validate(key string, value []byte) error {
	if !strings.HasSuffix(string(value), ":ok") {
		return errors.New("invalid")
	}
	return nil
}
func (dValidator) Select(key string, vals [][]byte) (int, error) {
	best, br := 0, -1
	for i, v := range vals {
		r, _ := strconv.Atoi(strings.SplitN(string(v), ":", 2)[0])
		if r > br {
			best, br = i, r
		}
	}
	return best, nil
}

const relayID = "QmcgpsyWgH8Y8ajJz1Cu72KnS5uo2Aa2LpzU7kinSupNKC"

// addrOf builds the multiaddr of an address token: "4:<n>", "6:<n>", "d", "dl", each optionally followed by "r".
func addrOf(tok string) ma.Multiaddr {
	relay := strings.HasSuffix(tok, "r")
	t := strings.TrimSuffix(tok, "r")
	var s string
	switch {
	case strings.HasPrefix(t, "4:"):
		n, _ := strconv.ParseUint(t[2:], 10, 32)
		s = fmt.Sprintf("/ip4/%d.%d.%d.%d/tcp/4001", n>>24, (n>>16)&255, (n>>8)&255, n&255)
	case strings.HasPrefix(t, "6:"):
		n, _ := new(big.Int).SetString(t[2:], 10)
		b := n.FillBytes(make([]byte, 16))
		// build from bytes: the textual form of an IPv4-mapped address would be parsed back as such anyway
		raw := append([]byte{41}, b...)
		raw = append(raw, 6, 0x0f, 0xa1)
		m, err := ma.NewMultiaddrBytes(raw)
		if err != nil {
			panic(err)
		}
		if relay {
			c, _ := ma.NewMultiaddr("/p2p/" + relayID + "/p2p-circuit")
			return m.Encapsulate(c)
		}
		return m
	case t == "d":
		s = "/dns4/example.com/tcp/4001"
	case t == "dl":
		s = "/dns4/node.localhost/tcp/4001"
	default:
		panic("bad address token " + tok)
	}
	if relay {
		s += "/p2p/" + relayID + "/p2p-circuit"
	}
	m, err := ma.NewMultiaddr(s)
	if err != nil {
		panic(err)
	}
	return m
}

type addrBook struct{ back map[string]string }

func (b *addrBook) list(spec string) []ma.Multiaddr {
	var out []ma.Multiaddr
	if spec == "" || spec == "-" {
		return nil
	}
	for _, t := range strings.Split(spec, ",") {
		m := addrOf(t)
		b.back[string(m.Bytes())] = t
		out = append(out, m)
	}
	return out
}

func (b *addrBook) toks(ms []ma.Multiaddr) string {
	var ss []string
	for _, m := range ms {
		t, ok := b.back[string(m.Bytes())]
		if !ok {
			t = "?" + m.String()
		}
		ss = append(ss, t)
	}
	sort.Strings(ss)
	return "[" + strings.Join(ss, ",") + "]"
}

func (b *addrBook) toksRaw(bs [][]byte) string {
	var ms []ma.Multiaddr
	for _, x := range bs {
		m, err := ma.NewMultiaddrBytes(x)
		if err == nil {
			ms = append(ms, m)
		}
	}
	return b.toks(ms)
}

type dworld struct {
	h        *simnet.Host
	d        *DHT
	wan, lan *simnet.Sender
	book     *addrBook
	dialPark map[peer.ID]bool
	dials    *simnet.Sender
}

const wPeer, lPeer, tPeer = 1, 2, 9

func newDual(a map[string]string, mode dht.ModeOpt) *dworld {
	w := &dworld{wan: &simnet.Sender{Name: "w"}, lan: &simnet.Sender{Name: "l"}, dials: &simnet.Sender{Name: "d"},
		book: &addrBook{back: map[string]string{}}, dialPark: map[peer.ID]bool{}}
	w.h = simnet.NewHost(dPeer(1000000))
	w.h.SetAddrs(w.book.list(a["host"]))
	w.h.ConnectFn = func(ctx context.Context, pi peer.AddrInfo) error {
		if w.dialPark[pi.ID] {
			_, err := w.dials.SendRequest(ctx, pi.ID, nil)
			return err
		}
		return nil
	}
	mk := func(s *simnet.Sender) dht.Option {
		return dht.WithCustomMessageSender(func(h host.Host, protos []protocol.ID) pb.MessageSenderWithDisconnect { return s })
	}
	d, err := New(w.h,
		DHTOption(dht.DisableAutoRefresh(), dht.Mode(mode), dht.BucketSize(4),
			dht.Validator(record.NamespacedValidator{"v": dValidator{}})),
		// a private protocol prefix lifts the /ipfs restrictions on bucket size and validators; the LAN extension has to
		// be re-applied after it (dual.New applied it to the default prefix)
		WanDHTOption(mk(w.wan), dht.ProtocolPrefix("/verif")),
		LanDHTOption(mk(w.lan), dht.ProtocolPrefix("/verif"), dht.ProtocolExtension(LanExtension)))
	if err != nil {
		panic(err)
	}
	w.d = d
	if a["wanrt"] == "1" {
		w.h.Net().AddConn(dPeer(wPeer), network.DirOutbound, addrOf("4:134744072"))
		if ok, err := d.WAN.RoutingTable().TryAddPeer(dPeer(wPeer), true, false); !ok || err != nil {
			panic(fmt.Sprint("wan rt add: ", ok, err))
		}
	}
	if a["lanrt"] == "1" {
		w.h.Net().AddConn(dPeer(lPeer), network.DirOutbound, addrOf("4:167772161"))
		if ok, err := d.LAN.RoutingTable().TryAddPeer(dPeer(lPeer), true, false); !ok || err != nil {
			panic(fmt.Sprint("lan rt add: ", ok, err))
		}
	}
	return w
}

func (w *dworld) parked() []*simnet.Parked {
	var all []*simnet.Parked
	all = append(all, w.wan.Pending()...)
	all = append(all, w.lan.Pending()...)
	all = append(all, w.dials.Pending()...)
	return all
}

// find returns the parked call of sender `side` ("w","l","d") to peer n, if any.
func (w *dworld) find(side string, n int) *simnet.Parked {
	for _, pk := range w.parked() {
		if pk.Sender.Name == side && dPeerNum(pk.Peer) == n {
			return pk
		}
	}
	return nil
}

func pbPeer(id peer.ID, addrs []ma.Multiaddr) *pb.Message_Peer {
	p := &pb.Message_Peer{Id: []byte(id)}
	for _, a := range addrs {
		p.Addrs = append(p.Addrs, a.Bytes())
	}
	return p
}

func typeLetter(m *pb.Message) string {
	if m == nil {
		return "D"
	}
	switch m.GetType() {
	case pb.Message_FIND_NODE:
		return "F"
	case pb.Message_GET_VALUE:
		return "G"
	case pb.Message_GET_PROVIDERS:
		return "P"
	case pb.Message_PUT_VALUE:
		return "V"
	case pb.Message_ADD_PROVIDER:
		return "A"
	}
	return "?"
}

func errClass(err error) string {
	switch {
	case err == nil:
		return "nil"
	case err == kb.ErrLookupFailure:
		return "lookupfailure"
	case err == routing.ErrNotFound:
		return "notfound"
	case errors.Is(err, context.Canceled):
		return "canceled"
	}
	return "other"
}

func dkv(line string) map[string]string {
	m := map[string]string{}
	for _, f := range strings.Fields(line) {
		if i := strings.IndexByte(f, '='); i > 0 {
			m[f[:i]] = f[i+1:]
		}
	}
	return m
}

// runDual executes one case: a single operation on a fresh dual DHT.
func runDual(c *vu.Case) {
	a := dkv(c.In[0])
	mode := dht.ModeClient
	if a["kind"] == "serve" {
		mode = dht.ModeServer
	}
	w := newDual(a, mode)
	defer func() {
		for round := 0; round < 50; round++ {
			ps := w.parked()
			if len(ps) == 0 {
				break
			}
			for _, pk := range ps {
				pk.Sender.Release(pk, simnet.Result{Err: simnet.ErrScripted})
			}
			synctest.Wait()
		}
		w.d.Close()
		w.h.Close()
		synctest.Wait()
	}()
	ctx := context.Background()
	var log []string // requests seen, "<side><type><peer>"
	payload := "-"
	// answer releases one parked call honestly: empty closer-peer list unless `closer` is given
	answer := func(pk *simnet.Parked, fail bool, closer []*pb.Message_Peer, mut func(*pb.Message)) {
		log = append(log, fmt.Sprintf("%s%s%d", pk.Sender.Name, typeLetter(pk.Msg), dPeerNum(pk.Peer)))
		if pk.Msg != nil && pk.Msg.GetType() == pb.Message_ADD_PROVIDER {
			var ps []string
			for _, pp := range pk.Msg.GetProviderPeers() {
				ps = append(ps, fmt.Sprintf("%d:%s", dPeerNum(peer.ID(pp.Id)), w.book.toksRaw(pp.Addrs)))
			}
			payload = strings.Join(ps, "|")
		}
		if fail {
			pk.Sender.Release(pk, simnet.Result{Err: simnet.ErrScripted})
			synctest.Wait()
			return
		}
		var resp *pb.Message
		if pk.Msg != nil && pk.Kind == "req" {
			resp = pb.NewMessage(pk.Msg.GetType(), pk.Msg.GetKey(), 0)
			resp.CloserPeers = closer
			if pk.Msg.GetType() == pb.Message_PUT_VALUE {
				resp.Record = pk.Msg.GetRecord()
			}
			if mut != nil {
				mut(resp)
			}
		}
		pk.Sender.Release(pk, simnet.Result{Resp: resp})
		synctest.Wait()
	}
	drain := func() {
		for round := 0; round < 200; round++ {
			ps := w.parked()
			if len(ps) == 0 {
				return
			}
			sort.Slice(ps, func(i, j int) bool {
				return ps[i].Sender.Name < ps[j].Sender.Name || ps[i].Sender.Name == ps[j].Sender.Name && ps[i].Seq < ps[j].Seq
			})
			answer(ps[0], false, nil, nil)
		}
	}
	sides := func() string {
		var ws, ls []string
		for _, l := range log {
			if l[0] == 'w' {
				ws = append(ws, l[1:])
			} else if l[0] == 'l' {
				ls = append(ls, l[1:])
			}
		}
		return fmt.Sprintf("wan=[%s] lan=[%s]", strings.Join(ws, ","), strings.Join(ls, ","))
	}
	keyMH, _ := mh.Sum([]byte("verif-dual-"+a["key"]), mh.SHA2_256, -1)
	keyCid := cid.NewCidV1(cid.Raw, keyMH)
	out := "-"
	switch a["kind"] {
	case "classify":
		// the classification functions themselves, on one address
		m := addrOf(a["addr"])
		b := func(x bool) int {
			if x {
				return 1
			}
			return 0
		}
		ai := peer.AddrInfo{ID: dPeer(5), Addrs: []ma.Multiaddr{m}}
		// routing-table filters: one connection to the peer from that address, the address in the peerstore
		w.h.Net().AddConn(ai.ID, network.DirInbound, m)
		w.h.Peerstore().AddAddrs(ai.ID, ai.Addrs, 1<<40)
		out = fmt.Sprintf("pubq=%d privq=%d pubrt=%d privrt=%d", b(dht.PublicQueryFilter(nil, ai)), b(dht.PrivateQueryFilter(nil, ai)),
			b(dht.PublicRoutingTableFilter(w.d.WAN, ai.ID)), b(dht.PrivateRoutingTableFilter(w.d.LAN, ai.ID)))
	case "provide", "putvalue":
		var err error
		done := make(chan struct{})
		go func() {
			defer close(done)
			if a["kind"] == "provide" {
				err = w.d.Provide(ctx, keyCid, true)
			} else {
				err = w.d.PutValue(ctx, "/v/"+a["key"], []byte("3:ok"))
			}
		}()
		synctest.Wait()
		drain()
		<-done
		out = fmt.Sprintf("%s payload=%s err=%s", sides(), payload, errClass(err))
	case "getvalue":
		var val []byte
		var err error
		done := make(chan struct{})
		go func() {
			defer close(done)
			val, err = w.d.GetValue(ctx, "/v/"+a["key"])
		}()
		synctest.Wait()
		rel := func(side string, n int, v string) {
			pk := w.find(side, n)
			if pk == nil {
				return
			}
			answer(pk, v == "fail", nil, func(m *pb.Message) {
				if strings.HasPrefix(v, "r") {
					m.Record = &recpb.Record{Key: pk.Msg.GetKey(), Value: []byte(v[1:] + ":ok")}
				}
			})
		}
		if a["order"] == "w" {
			rel("w", wPeer, a["wv"])
			rel("l", lPeer, a["lv"])
		} else {
			rel("l", lPeer, a["lv"])
			rel("w", wPeer, a["wv"])
		}
		drain()
		<-done
		out = fmt.Sprintf("val=%s err=%s", string(val), errClass(err))
		if val == nil {
			out = fmt.Sprintf("val=- err=%s", errClass(err))
		}
	case "findpeer":
		target := dPeer(tPeer)
		w.dialPark[target] = true
		var pi peer.AddrInfo
		var err error
		done := make(chan struct{})
		go func() {
			defer close(done)
			pi, err = w.d.FindPeer(ctx, target)
		}()
		synctest.Wait()
		resp := func(side string, n int, spec string) {
			if pk := w.find(side, n); pk != nil {
				answer(pk, false, []*pb.Message_Peer{pbPeer(target, w.book.list(spec))}, nil)
			}
		}
		// the target itself: its dial, then (if the dial worked) its answer
		tgt := func(side string) {
			for round := 0; round < 4; round++ {
				if pk := w.find("d", tPeer); pk != nil {
					answer(pk, a["tbeh"] == "dialfail", nil, nil)
					continue
				}
				if pk := w.find(side, tPeer); pk != nil {
					answer(pk, a["tbeh"] == "fail", nil, nil)
					continue
				}
				break
			}
		}
		for _, st := range strings.Split(a["order"], ".") {
			switch st {
			case "W":
				resp("w", wPeer, a["aw"])
			case "L":
				resp("l", lPeer, a["al"])
			case "tw":
				tgt("w")
			case "tl":
				tgt("l")
			}
		}
		drain()
		<-done
		out = fmt.Sprintf("addrs=%s err=%s", w.book.toks(pi.Addrs), errClass(err))
	case "findprovs":
		count, _ := strconv.Atoi(a["count"])
		var seq []string
		done := make(chan struct{})
		go func() {
			defer close(done)
			for p := range w.d.FindProvidersAsync(ctx, keyCid, count) {
				seq = append(seq, fmt.Sprint(dPeerNum(p.ID)))
			}
		}()
		synctest.Wait()
		provs := func(spec string) func(*pb.Message) {
			return func(m *pb.Message) {
				if spec == "" || spec == "-" {
					return
				}
				for _, x := range strings.Split(spec, ",") {
					n, _ := strconv.Atoi(x)
					m.ProviderPeers = append(m.ProviderPeers, pbPeer(dPeer(n), []ma.Multiaddr{addrOf("4:134744072")}))
				}
			}
		}
		first, second := "w", "l"
		if a["order"] == "l" {
			first, second = "l", "w"
		}
		for _, side := range []string{first, second} {
			n, spec := wPeer, a["pw"]
			if side == "l" {
				n, spec = lPeer, a["pl"]
			}
			if pk := w.find(side, n); pk != nil {
				answer(pk, false, nil, provs(spec))
			}
		}
		drain()
		<-done
		out = fmt.Sprintf("n=%d provs=[%s]", len(seq), strings.Join(seq, ","))
		sorted := append([]string(nil), seq...)
		sort.Slice(sorted, func(i, j int) bool { x, _ := strconv.Atoi(sorted[i]); y, _ := strconv.Atoi(sorted[j]); return x < y })
		out += fmt.Sprintf(" set=[%s]", strings.Join(sorted, ","))
	case "learn":
		inner, side, n := w.d.WAN, "w", wPeer
		if a["side"] == "lan" {
			inner, side, n = w.d.LAN, "l", lPeer
		}
		var refs []*pb.Message_Peer
		var ids []int
		for _, r := range strings.Split(a["refs"], "|") {
			p := strings.SplitN(r, ":", 2)
			id, _ := strconv.Atoi(p[0])
			ids = append(ids, id)
			refs = append(refs, pbPeer(dPeer(id), w.book.list(p[1])))
		}
		done := make(chan struct{})
		go func() {
			defer close(done)
			_, _ = inner.GetClosestPeers(ctx, string(keyMH))
		}()
		synctest.Wait()
		if pk := w.find(side, n); pk != nil {
			answer(pk, false, refs, nil)
		}
		// what was stored is observed before the followed peers answer (a connected peer's addresses are not updated)
		var stored []string
		for _, id := range ids {
			stored = append(stored, fmt.Sprintf("%d:%s", id, w.book.toks(w.h.Peerstore().Addrs(dPeer(id)))))
		}
		drain()
		<-done
		// (a peer whose request was still outstanding when the lookup ended is asked again by the follow-up phase)
		var followed []string
		asked := map[string]bool{}
		for _, l := range log {
			if l[1] == 'F' && l[2:] != fmt.Sprint(n) && !asked[l[2:]] {
				asked[l[2:]] = true
				followed = append(followed, l[2:])
			}
		}
		sort.Slice(followed, func(i, j int) bool { x, _ := strconv.Atoi(followed[i]); y, _ := strconv.Atoi(followed[j]); return x < y })
		out = fmt.Sprintf("followed=[%s] stored=%s", strings.Join(followed, ","), strings.Join(stored, "|"))
		if os.Getenv("VERIF_DEBUG") != "" {
			out += fmt.Sprint(" LOG=", log)
		}
	case "serve":
		// an ADD_PROVIDER arrives at the WAN / LAN server
		pid := protocol.ID("/verif/kad/1.0.0")
		inner := w.d.WAN
		if a["side"] == "lan" {
			pid = protocol.ID("/verif/lan/kad/1.0.0")
			inner = w.d.LAN
		}
		from := dPeer(5)
		conn := w.h.Net().AddConn(from, network.DirInbound, nil)
		s := conn.NewSimStream(pid, network.DirInbound)
		hd := w.h.Handler(pid)
		if hd == nil {
			out = fmt.Sprint("no-handler ", w.h.Protocols())
			break
		}
		go hd(s)
		req := pb.NewMessage(pb.Message_ADD_PROVIDER, keyMH, 0)
		req.ProviderPeers = []*pb.Message_Peer{pbPeer(from, w.book.list(a["addrs"]))}
		raw, _ := proto.Marshal(req)
		s.Remote().Write(append(varint.ToUvarint(uint64(len(raw))), raw...))
		synctest.Wait()
		// the connection ends: from now on the peerstore's addresses are what a reader gets
		s.Remote().CloseWrite()
		synctest.Wait()
		provs, perr := inner.ProviderStore().GetProviders(ctx, keyMH)
		_ = perr
		stored := "none"
		for _, p := range provs {
			if p.ID == from {
				stored = w.book.toks(p.Addrs)
			}
		}
		out = "stored=" + stored
	}
	c.Out = append(c.Out, out)
	c.Tag("kind-" + a["kind"])
}

func execDual(c *vu.Case) {
	func() {
		defer func() {
			if r := recover(); r != nil {
				msg := fmt.Sprint(r)
				if len(msg) > 160 {
					msg = msg[:160]
				}
				for len(c.Out) < len(c.In) {
					c.Out = append(c.Out, "-")
				}
				c.Out[len(c.Out)-1] += " |BUBBLE:" + strings.ReplaceAll(msg, " ", "_")
			}
		}()
		synctest.Test(c.T, func(t *testing.T) { runDual(c) })
	}()
}

// ---------------------------------------------------------------------------------------------
// address generator: every CIDR boundary +-1, special addresses, random ones

var cidrs4 = []string{"127.0.0.0/8", "10.0.0.0/8", "100.64.0.0/10", "172.16.0.0/12", "192.168.0.0/16", "169.254.0.0/16",
	"0.0.0.0/8", "192.0.0.0/26", "192.0.2.0/24", "192.88.99.0/24", "198.18.0.0/15", "198.51.100.0/24", "203.0.113.0/24",
	"224.0.0.0/4", "240.0.0.0/4", "255.255.255.255/32"}
var cidrs6 = []string{"::1/128", "fc00::/7", "fe80::/10", "ff00::/8", "2001:db8::/32", "2000::/3", "64:ff9b:1::/48", "64:ff9b::/96",
	"::ffff:0:0/96"}

func boundaryAddrs() []string {
	var out []string
	one := big.NewInt(1)
	for _, c := range cidrs4 {
		_, n, _ := net.ParseCIDR(c)
		ones, _ := n.Mask.Size()
		base := new(big.Int).SetBytes(n.IP.To4())
		size := new(big.Int).Lsh(one, uint(32-ones))
		for _, v := range []*big.Int{new(big.Int).Sub(base, one), base, new(big.Int).Sub(new(big.Int).Add(base, size), one), new(big.Int).Add(base, size)} {
			if v.Sign() >= 0 && v.BitLen() <= 32 {
				out = append(out, "4:"+v.String())
				// the same address in IPv4-mapped IPv6 form
				m := new(big.Int).Add(new(big.Int).Lsh(big.NewInt(0xffff), 32), v)
				out = append(out, "6:"+m.String())
			}
		}
	}
	for _, c := range cidrs6 {
		_, n, _ := net.ParseCIDR(c)
		ones, _ := n.Mask.Size()
		base := new(big.Int).SetBytes(n.IP.To16())
		size := new(big.Int).Lsh(one, uint(128-ones))
		for _, v := range []*big.Int{new(big.Int).Sub(base, one), base, new(big.Int).Sub(new(big.Int).Add(base, size), one), new(big.Int).Add(base, size)} {
			if v.Sign() >= 0 && v.BitLen() <= 128 {
				out = append(out, "6:"+v.String())
			}
		}
	}
	out = append(out, "6:0", "6:2", "d", "dl", "4:134744072", "4:16843009", "6:42540766411282592856903984951653826561")
	return out
}

var boundaries = boundaryAddrs()

func genAddr(r *vu.RNG) string {
	var t string
	switch r.Intn(10) {
	case 0, 1, 2, 3:
		t = boundaries[r.Intn(len(boundaries))]
	case 4, 5:
		t = fmt.Sprintf("4:%d", r.Intn(1<<32))
	case 6:
		// random IPv6 with a random leading group drawn from the interesting ones
		lead := []uint64{0x2000, 0x2001, 0x3fff, 0x4000, 0xfc00, 0xfd12, 0xfe80, 0xfec0, 0xff02, 0x0064, 0x0000, 0x1fff}[r.Intn(12)]
		v := new(big.Int).Lsh(new(big.Int).SetUint64(lead), 112)
		v.Add(v, new(big.Int).SetUint64(uint64(r.Intn(1<<62))))
		t = "6:" + v.String()
	case 7:
		t = []string{"d", "dl"}[r.Intn(2)]
	default:
		t = []string{"4:134744072", "4:167772161", "4:2130706433", "6:1", "6:42540766411282592856903984951653826561", "4:3232235777"}[r.Intn(6)]
	}
	if r.Chance(1, 6) {
		t += "r"
	}
	return t
}

func genAddrs(r *vu.RNG, maxN int) string {
	n := r.Range(0, maxN)
	if n == 0 {
		return "-"
	}
	var ss []string
	seen := map[string]bool{}
	for i := 0; i < n; i++ {
		t := genAddr(r)
		if !seen[t] {
			seen[t] = true
			ss = append(ss, t)
		}
	}
	return strings.Join(ss, ",")
}

func genIDs(r *vu.RNG) string {
	n := r.Range(0, 5)
	if n == 0 {
		return "-"
	}
	var ss []string
	for i := 0; i < n; i++ {
		ss = append(ss, fmt.Sprint(20+r.Intn(7)))
	}
	return strings.Join(ss, ",")
}

func TestVerifC15(t *testing.T) {
	vu.Run(t, vu.Config{Prop: "C15", QuickN: 2400, ThoroughN: 60000,
		Gen: func(r *vu.RNG, c *vu.Case) bool {
			kind := []string{"provide", "putvalue", "getvalue", "findpeer", "findprovs", "learn", "learn", "serve", "classify"}[r.Intn(9)]
			hdr := fmt.Sprintf("dual kind=%s key=%d wanrt=%d lanrt=%d host=%s", kind, c.Idx, r.Intn(2), r.Intn(2), genAddrs(r, 5))
			vals := []string{"-", "r1", "r2", "r3", "fail"}
			switch kind {
			case "getvalue":
				hdr += fmt.Sprintf(" wv=%s lv=%s order=%s", vals[r.Intn(5)], vals[r.Intn(5)], []string{"w", "l"}[r.Intn(2)])
			case "findpeer":
				orders := []string{"W.tw.L.tl", "L.tl.W.tw", "W.L.tw.tl", "L.W.tl.tw", "W.L.tl.tw"}
				hdr += fmt.Sprintf(" aw=%s al=%s tbeh=%s order=%s", genAddrs(r, 4), genAddrs(r, 4), []string{"ok", "fail", "dialfail"}[r.Intn(3)], orders[r.Intn(len(orders))])
			case "findprovs":
				hdr += fmt.Sprintf(" pw=%s pl=%s count=%d order=%s", genIDs(r), genIDs(r), r.Intn(5), []string{"w", "l"}[r.Intn(2)])
			case "learn":
				var refs []string
				// at most 3 referrals: the WAN lookup drops every peer of an IP group named more than 3 times in one
				// response (its routing-table diversity limit), and all IPv6 addresses without a known ASN form one group
				for i, nr := 0, r.Range(1, 3); i < nr; i++ {
					refs = append(refs, fmt.Sprintf("%d:%s", 30+i, genAddrs(r, 4)))
				}
				side := []string{"wan", "lan"}[r.Intn(2)]
				hdr = strings.Replace(hdr, "wanrt=0", "wanrt=1", 1)
				hdr = strings.Replace(hdr, "lanrt=0", "lanrt=1", 1)
				hdr += fmt.Sprintf(" side=%s refs=%s", side, strings.Join(refs, "|"))
			case "serve":
				hdr += fmt.Sprintf(" side=%s addrs=%s", []string{"wan", "lan"}[r.Intn(2)], genAddrs(r, 5))
			case "classify":
				hdr += " addr=" + genAddr(r)
			}
			c.In = append(c.In, hdr)
			if strings.Count(hdr, ",") >= 2 {
				c.Tag("nontrivial")
			}
			return true
		}, Exec: execDual})
}

// ---------------------------------------------------------------------------------------------
// C14 (sibling): Close of the dual DHT while operations are in flight; a constructor that fails half-way

func runC14d(c *vu.Case) {
	a := dkv(c.In[0])
	if a["kind"] == "ctor" {
		h := simnet.NewHost(dPeer(1000000))
		// the WAN DHT is built first; the LAN DHT then fails
		_, err := New(h, WanDHTOption(dht.ProtocolPrefix("/verif"), dht.Mode(dht.ModeClient)),
			LanDHTOption(dht.ProtocolPrefix("/verif"), dht.ProtocolExtension(LanExtension), dht.Mode(dht.ModeOpt(99))))
		synctest.Wait()
		out := fmt.Sprintf("ctor err=%v panic=false", err != nil)
		h.Close()
		c.Out = append(c.Out, out)
		return
	}
	a["wanrt"], a["lanrt"] = "1", "1"
	w := newDual(a, dht.ModeClient)
	ctx := context.Background()
	keyMH, _ := mh.Sum([]byte("verif-dual-"+a["key"]), mh.SHA2_256, -1)
	keyCid := cid.NewCidV1(cid.Raw, keyMH)
	nops := 2
	done := make(chan struct{}, nops)
	for i := 0; i < nops; i++ {
		go func() {
			defer func() { done <- struct{}{} }()
			switch a["kind"] {
			case "provide":
				_ = w.d.Provide(ctx, keyCid, true)
			case "putvalue":
				_ = w.d.PutValue(ctx, "/v/"+a["key"], []byte("3:ok"))
			case "getvalue":
				_, _ = w.d.GetValue(ctx, "/v/"+a["key"])
			case "findpeer":
				_, _ = w.d.FindPeer(ctx, dPeer(tPeer))
			case "findprovs":
				for range w.d.FindProvidersAsync(ctx, keyCid, 0) {
				}
			case "searchvalue":
				ch, err := w.d.SearchValue(ctx, "/v/"+a["key"])
				if err == nil {
					for range ch {
					}
				}
			}
		}()
	}
	synctest.Wait()
	rel, _ := strconv.Atoi(a["rel"])
	for i := 0; i < rel; i++ {
		ps := w.parked()
		if len(ps) == 0 {
			break
		}
		var resp *pb.Message
		if ps[0].Msg != nil && ps[0].Kind == "req" {
			resp = pb.NewMessage(ps[0].Msg.GetType(), ps[0].Msg.GetKey(), 0)
		}
		ps[0].Sender.Release(ps[0], simnet.Result{Resp: resp})
		synctest.Wait()
	}
	closed := make(chan struct{}, 1)
	go func() { _ = w.d.Close(); closed <- struct{}{} }()
	synctest.Wait()
	for round := 0; round < 200; round++ {
		ps := w.parked()
		if len(ps) == 0 {
			break
		}
		if ps[0].Ctx.Err() != nil {
			ps[0].Sender.Release(ps[0], simnet.Result{CtxErr: true})
		} else {
			ps[0].Sender.Release(ps[0], simnet.Result{Err: simnet.ErrScripted})
		}
		synctest.Wait()
	}
	time.Sleep(2 * time.Minute)
	synctest.Wait()
	returned, nclosed := 0, 0
	for {
		select {
		case <-done:
			returned++
			continue
		case <-closed:
			nclosed++
			continue
		default:
		}
		break
	}
	err2 := w.d.Close()
	w.h.Close()
	synctest.Wait()
	c.Out = append(c.Out, fmt.Sprintf("returned=%d/%d closed=%d/1 again=%v", returned, nops, nclosed, err2 == nil))
}

func TestVerifC14d(t *testing.T) {
	vu.Run(t, vu.Config{Prop: "C14d", QuickN: 150, ThoroughN: 5000,
		Gen: func(r *vu.RNG, c *vu.Case) bool {
			if c.Idx%10 == 9 {
				c.In = append(c.In, "life kind=ctor host=-")
			} else {
				c.In = append(c.In, fmt.Sprintf("life kind=%s key=%d rel=%d host=4:134744072", []string{"provide", "putvalue", "getvalue", "findpeer", "findprovs", "searchvalue"}[r.Intn(6)], c.Idx, r.Intn(6)))
			}
			c.Tag("nontrivial")
			return true
		}, Exec: func(c *vu.Case) {
			func() {
				defer func() {
					if r := recover(); r != nil {
						for len(c.Out) < len(c.In) {
							c.Out = append(c.Out, "-")
						}
						c.Out[len(c.Out)-1] += " |BUBBLE:" + strings.ReplaceAll(fmt.Sprint(r), " ", "_")
					}
				}()
				synctest.Test(c.T, func(t *testing.T) { runC14d(c) })
			}()
		}})
}

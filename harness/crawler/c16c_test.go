//go:build verif

package crawler

import (
	"context"
	"fmt"
	"sort"
	"strconv"
	"strings"
	"sync"
	"testing"
	"testing/synctest"

	"github.com/libp2p/go-libp2p/core/host"
	"github.com/libp2p/go-libp2p/core/peer"
	"github.com/libp2p/go-libp2p/core/protocol"
	ma "github.com/multiformats/go-multiaddr"

	"github.com/libp2p/go-libp2p-kad-dht/internal/simnet"
	vu "github.com/libp2p/go-libp2p-kad-dht/internal/verifutil"
	pb "github.com/libp2p/go-libp2p-kad-dht/pb"
)

func cPeer(n int) peer.ID { return peer.ID(fmt.Sprintf("verif-peer-%027d", n)) }

func cPeerNum(p peer.ID) int {
	s := strings.TrimLeft(strings.TrimPrefix(string(p), "verif-peer-"), "0")
	if s == "" {
		return 0
	}
	n, _ := strconv.Atoi(s)
	return n
}

type cSpec struct {
	beh   string
	neigh []int
}

// runCrawl executes one crawl of the real DefaultCrawler on a scripted topology.
func runCrawl(c *vu.Case) {
	a := map[string]string{}
	for _, f := range strings.Fields(c.In[0]) {
		if i := strings.IndexByte(f, '='); i > 0 {
			a[f[:i]] = f[i+1:]
		}
	}
	specs := map[int]cSpec{}
	for _, t := range strings.Split(a["peers"], "|") {
		if t == "" {
			continue
		}
		p := strings.Split(t, ":")
		id, _ := strconv.Atoi(p[0])
		sp := cSpec{beh: p[1]}
		if len(p) > 2 && p[2] != "" {
			for _, x := range strings.Split(p[2], ".") {
				n, _ := strconv.Atoi(x)
				sp.neigh = append(sp.neigh, n)
			}
		}
		specs[id] = sp
	}
	h := simnet.NewHost(cPeer(1000000))
	var mu sync.Mutex
	reqs := map[int]int{}
	dials := map[int]int{}
	h.ConnectFn = func(ctx context.Context, pi peer.AddrInfo) error {
		id := cPeerNum(pi.ID)
		if specs[id].beh == "dial" {
			mu.Lock()
			dials[id]++
			mu.Unlock()
			return simnet.ErrScripted
		}
		return nil
	}
	addr := func(id int) ma.Multiaddr {
		m, _ := ma.NewMultiaddr(fmt.Sprintf("/ip4/8.%d.%d.%d/tcp/4001", (id>>16)&255, (id>>8)&255, id&255))
		return m
	}
	sender := &simnet.Sender{Name: "c"}
	sender.Auto = func(pk *simnet.Parked) (simnet.Result, bool) {
		id := cPeerNum(pk.Peer)
		mu.Lock()
		reqs[id]++
		mu.Unlock()
		sp := specs[id]
		if sp.beh == "fail" {
			return simnet.Result{Err: simnet.ErrScripted}, true
		}
		resp := pb.NewMessage(pk.Msg.GetType(), pk.Msg.GetKey(), 0)
		if sp.beh == "ok" {
			for _, n := range sp.neigh {
				resp.CloserPeers = append(resp.CloserPeers, &pb.Message_Peer{Id: []byte(cPeer(n)), Addrs: [][]byte{addr(n).Bytes()}})
			}
		}
		return simnet.Result{Resp: resp}, true
	}
	par, _ := strconv.Atoi(a["par"])
	cr, err := NewDefaultCrawler(h, WithParallelism(par),
		WithCustomMessageSender(func(host.Host, []protocol.ID) pb.MessageSenderWithDisconnect { return sender }))
	if err != nil {
		panic(err)
	}
	var seeds []*peer.AddrInfo
	for _, t := range strings.Split(a["seeds"], ",") {
		if t == "" || t == "-" {
			continue
		}
		noAddr := strings.HasSuffix(t, "x")
		id, _ := strconv.Atoi(strings.TrimSuffix(t, "x"))
		ai := &peer.AddrInfo{ID: cPeer(id)}
		if !noAddr {
			ai.Addrs = []ma.Multiaddr{addr(id)}
		}
		seeds = append(seeds, ai)
	}
	var oks, fails []int
	done := make(chan struct{})
	go func() {
		defer close(done)
		cr.Run(context.Background(), seeds,
			func(p peer.ID, _ []*peer.AddrInfo) { mu.Lock(); oks = append(oks, cPeerNum(p)); mu.Unlock() },
			func(p peer.ID, _ error) { mu.Lock(); fails = append(fails, cPeerNum(p)); mu.Unlock() })
	}()
	synctest.Wait()
	finished := 0
	select {
	case <-done:
		finished = 1
	default:
	}
	// queries per peer: 16 requests for a peer that answers, one for a peer whose request fails, one dial otherwise
	q := map[int]int{}
	for id, n := range reqs {
		if specs[id].beh == "fail" {
			q[id] += n
		} else {
			q[id] += (n + 15) / 16
		}
	}
	for id, n := range dials {
		q[id] += n
	}
	var ids []int
	for id := range q {
		ids = append(ids, id)
	}
	sort.Ints(ids)
	var qs []string
	for _, id := range ids {
		for i := 0; i < q[id]; i++ {
			qs = append(qs, fmt.Sprint(id))
		}
	}
	sort.Ints(oks)
	sort.Ints(fails)
	ints := func(l []int) string {
		var ss []string
		for _, x := range l {
			ss = append(ss, fmt.Sprint(x))
		}
		return "[" + strings.Join(ss, ",") + "]"
	}
	c.Out = append(c.Out, fmt.Sprintf("finished=%d queried=[%s] ok=%s fail=%s", finished, strings.Join(qs, ","), ints(oks), ints(fails)))
	h.Close()
}

func TestVerifC16c(t *testing.T) {
	vu.Run(t, vu.Config{Prop: "C16c", QuickN: 800, ThoroughN: 30000,
		Gen: func(r *vu.RNG, c *vu.Case) bool {
			n := r.Range(1, 14)
			var specs []string
			for i := 0; i < n; i++ {
				beh := "ok"
				if r.Chance(1, 4) {
					beh = []string{"fail", "dial", "empty"}[r.Intn(3)]
				}
				var ns []string
				for j := 0; j < r.Range(0, 4); j++ {
					ns = append(ns, fmt.Sprint(r.Intn(n+2))) // may name peers that are not described: they fail to answer
				}
				specs = append(specs, fmt.Sprintf("%d:%s:%s", i, beh, strings.Join(ns, ".")))
			}
			var seeds []string
			for j := 0; j < r.Range(0, 4); j++ {
				s := fmt.Sprint(r.Intn(n))
				if r.Chance(1, 6) {
					s += "x"
				}
				seeds = append(seeds, s)
			}
			if r.Chance(1, 3) && len(seeds) > 0 {
				seeds = append(seeds, seeds[0]) // fullrt seeds a crawl with found peers + bootstrap peers: duplicates happen
			}
			c.In = append(c.In, fmt.Sprintf("crawl n=%d par=%d seeds=%s peers=%s", n, []int{1, 2, 3, 8}[r.Intn(4)], strings.Join(seeds, ","), strings.Join(specs, "|")))
			if n >= 4 {
				c.Tag("nontrivial")
			}
			return true
		}, Exec: func(c *vu.Case) { synctest.Test(c.T, func(t *testing.T) { runCrawl(c) }) }})
}

//go:build verif

package dual

// C14 (sibling C14w): Close of the dual sweeping-provider wrapper. It closes its two providers side by side and must
// return only when both have finished — also when one of them fails (here: its datastore refuses the write of the average
// prefix length at Close) while the other is still busy (here: held inside the same write).

import (
	"context"
	"errors"
	"fmt"
	"strings"
	"testing"
	"testing/synctest"
	"time"

	"github.com/ipfs/go-datastore"
	"github.com/ipfs/go-datastore/namespace"
	dssync "github.com/ipfs/go-datastore/sync"
	kb "github.com/libp2p/go-libp2p-kbucket"
	"github.com/libp2p/go-libp2p/core/peer"
	ma "github.com/multiformats/go-multiaddr"

	vu "github.com/libp2p/go-libp2p-kad-dht/internal/verifutil"
	pb "github.com/libp2p/go-libp2p-kad-dht/pb"
	"github.com/libp2p/go-libp2p-kad-dht/provider"
	"github.com/libp2p/go-libp2p-kad-dht/provider/keystore"
)

func wPeer(n int) peer.ID { return peer.ID(fmt.Sprintf("verif-peer-%027d", n)) }

type wRouter struct{ swarm []peer.ID }

func (r *wRouter) GetClosestPeers(ctx context.Context, key string) ([]peer.ID, error) {
	s := kb.SortClosestPeers(append([]peer.ID(nil), r.swarm...), kb.ConvertKey(key))
	return s[:min(3, len(s))], nil
}

type wSender struct{}

func (wSender) SendRequest(context.Context, peer.ID, *pb.Message) (*pb.Message, error) { return nil, nil }
func (wSender) SendMessage(context.Context, peer.ID, *pb.Message) error               { return nil }

// closeDS fails or holds the write the provider makes at Close (the average prefix length)
type closeDS struct {
	datastore.Batching
	fail bool
	gate chan struct{}
	hit  chan struct{}
}

func (d *closeDS) Put(ctx context.Context, k datastore.Key, v []byte) error {
	if strings.Contains(k.String(), "avg_prefix_len") {
		if d.gate != nil {
			select {
			case d.hit <- struct{}{}:
			default:
			}
			<-d.gate
		}
		if d.fail {
			return errors.New("scripted: datastore refuses the write")
		}
	}
	return d.Batching.Put(ctx, k, v)
}

func wProvider(ds datastore.Batching, self int) (*provider.SweepingProvider, keystore.Keystore) {
	addr, _ := ma.NewMultiaddr("/ip4/8.8.8.8/tcp/4001")
	router := &wRouter{}
	for i := 0; i < 12; i++ {
		router.swarm = append(router.swarm, wPeer(i))
	}
	ks, err := keystore.NewKeystore(namespace.Wrap(ds, datastore.NewKey("verif-keystore")))
	if err != nil {
		panic(err)
	}
	p, err := provider.New(provider.WithPeerID(wPeer(self)), provider.WithRouter(router), provider.WithMessageSender(wSender{}),
		provider.WithSelfAddrs(func() []ma.Multiaddr { return []ma.Multiaddr{addr} }), provider.WithReplicationFactor(3),
		provider.WithReprovideInterval(time.Hour), provider.WithKeystore(ks), provider.WithDatastore(ds))
	if err != nil {
		panic(err)
	}
	return p, ks
}

func runC14w(c *vu.Case) {
	a := map[string]string{}
	for _, f := range strings.Fields(c.In[0]) {
		if i := strings.IndexByte(f, '='); i > 0 {
			a[f[:i]] = f[i+1:]
		}
	}
	mk := func(fail, park bool) *closeDS {
		d := &closeDS{Batching: dssync.MutexWrap(datastore.NewMapDatastore()), fail: fail, hit: make(chan struct{}, 1)}
		if park {
			d.gate = make(chan struct{})
		}
		return d
	}
	wanDS, lanDS := mk(a["wanfail"] == "1", a["wanpark"] == "1"), mk(a["lanfail"] == "1", a["lanpark"] == "1")
	wan, wks := wProvider(wanDS, 1000001)
	lan, lks := wProvider(lanDS, 1000002)
	d := &SweepingProvider{WAN: wan, LAN: lan}
	defer func() {
		_ = wks.Close()
		_ = lks.Close()
		synctest.Wait()
	}()
	time.Sleep(2 * time.Second) // both providers measure the network
	synctest.Wait()
	done := make(chan error, 1)
	go func() { done <- d.Close() }()
	synctest.Wait()
	early, gotErr := 0, 0
	parked := wanDS.gate != nil || lanDS.gate != nil
	var err error
	got := false
	select {
	case err = <-done:
		got = true
	default:
	}
	if got && parked {
		early = 1 // Close returned although a provider is still inside its own Close
	}
	for _, x := range []*closeDS{wanDS, lanDS} {
		if x.gate != nil {
			close(x.gate)
		}
	}
	if !got {
		select {
		case err = <-done:
		case <-time.After(time.Minute):
			c.Out = append(c.Out, "hang")
			return
		}
	}
	synctest.Wait()
	if err != nil {
		gotErr = 1
	}
	c.Out = append(c.Out, fmt.Sprintf("early=%d err=%d", early, gotErr))
	c.Tag("nontrivial")
}

func TestVerifC14w(t *testing.T) {
	vu.Run(t, vu.Config{Prop: "C14w", QuickN: 32, ThoroughN: 320,
		Gen: func(r *vu.RNG, c *vu.Case) bool {
			x := c.Idx % 16
			c.In = append(c.In, fmt.Sprintf("dualclose wanfail=%d wanpark=%d lanfail=%d lanpark=%d", x&1, (x>>1)&1, (x>>2)&1, (x>>3)&1))
			return true
		}, Exec: func(c *vu.Case) {
			func() {
				defer func() {
					if r := recover(); r != nil {
						for len(c.Out) < len(c.In) {
							c.Out = append(c.Out, "-")
						}
						c.Out[len(c.Out)-1] += " |BUBBLE:" + strings.ReplaceAll(fmt.Sprint(r), " ", "_")
					}
				}()
				synctest.Test(c.T, func(t *testing.T) { runC14w(c) })
			}()
		}})
}

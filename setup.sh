#!/bin/sh
# Build the framework from files on disk only (offline): Lean project + driver, warm the Go caches.
set -e
cd "$(dirname "$0")"
export GOPROXY=off
mkdir -p out evidence
(cd lean && lake build 2>&1 | tail -3)
# warm the go build cache for the harness packages (errors here are reported by the checks themselves)
python3 - <<'PY' || true
import json, os, subprocess, sys
sys.path.insert(0, "tools")
from props import PROPS
import importlib.util
spec = importlib.util.spec_from_loader("check", loader=None)
pkgs = sorted({c["pkg"] for c in PROPS.values() if c.get("pkg")})
src = open("check").read()
ns = {"__name__": "check_import"}
exec(compile(src, "check", "exec"), ns)
ov = ns["make_overlay"]()
for p in pkgs:
    pkg = "./" + p if p != "." else "."
    subprocess.run(["go", "test", "-tags", "verif", "-overlay", ov, "-vet=off", "-count=1", "-run", "^$", pkg],
                   cwd=os.environ.get("VERIF_REPO", "/repo"))
PY
echo setup done
